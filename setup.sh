#!/bin/bash
# Build the framework environment offline: a venv layered over /venv (which has
# the repo's deps) plus z3-solver / cvc5 / crosshair-tool from the wheelhouse.
set -e
cd "$(dirname "$0")"
V=/verif/.venv
if [ ! -x "$V/bin/python" ] || ! "$V/bin/python" -c "import z3, numpy, flatbuffers" 2>/dev/null; then
  rm -rf "$V"
  /venv/bin/python -m venv "$V"
  SP=$("$V/bin/python" -c "import sysconfig; print(sysconfig.get_paths()['purelib'])")
  printf "import site; site.addsitedir('/venv/lib/python3.12/site-packages')\n/repo\n" > "$SP/zz_verif_overlay.pth"
  PIP_NO_INDEX=1 "$V/bin/pip" install -q --no-index --find-links /opt/veriftools/wheels z3-solver cvc5 crosshair-tool jsonschema >/dev/null
fi
"$V/bin/python" -c "import z3, cvc5, crosshair, numpy, flatbuffers, ai_edge_quantizer.qtyping; print('setup ok: z3', z3.get_version_string(), 'numpy', numpy.__version__)"
