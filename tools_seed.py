"""Confirms a seeded change delivered by a sub-agent in /tmp/wt_<id> and runs
the checks against it.  usage: tools_seed.py <id> [--checks C01,C02] [--tier quick]
"""
import json, os, shutil, subprocess, sys, xml.etree.ElementTree as ET, tempfile, time

def sh(cmd, cwd=None, env=None, timeout=3600):
  return subprocess.run(cmd, shell=True, cwd=cwd, env=env, capture_output=True, text=True, timeout=timeout)

def main():
  pid = sys.argv[1]
  name = sys.argv[2] if len(sys.argv) > 2 and not sys.argv[2].startswith('--') else pid
  checks = [pid]
  tier = 'quick'
  for i, a in enumerate(sys.argv):
    if a == '--checks': checks = sys.argv[i + 1].split(',')
    if a == '--tier': tier = sys.argv[i + 1]
  wt = f'/tmp/wt_{name}'
  for i, a in enumerate(sys.argv):
    if a == '--wt': wt = sys.argv[i + 1]
  seed = os.path.join(wt, '_seed')
  env = dict(os.environ, PYTHONPATH=wt, TF_CPP_MIN_LOG_LEVEL='3')
  out = {'property': pid, 'worktree': wt}
  # 1. the patch is the worktree diff
  diff = sh("git diff", cwd=wt).stdout
  open(os.path.join(seed, 'patch.diff'), 'w').write(diff)
  out['files_changed'] = sh("git diff --stat", cwd=wt).stdout.strip().splitlines()[-1:]
  # 2. suite with the change
  b = json.load(open('/root/.vp/BASELINE.json'))
  x = tempfile.mktemp(suffix='.xml')
  sh(f"/venv/bin/python -m pytest -q -p no:cacheprovider --timeout=900 --continue-on-collection-errors --junitxml={x}", cwd=wt, env=env)
  passed = set()
  for tc in ET.parse(x).getroot().iter('testcase'):
    if not any(c.tag in ('failure', 'error', 'skipped') for c in tc):
      passed.add(f"{tc.get('classname')}::{tc.get('name')}")
  missing = sorted(set(b['stable_pass']) - passed)
  out['suite_with_change'] = {'passing': len(passed), 'baseline_missing': missing[:5]}
  # 3. demo with / without
  r1 = sh('/venv/bin/python _seed/demo.py', cwd=wt, env=env)
  sh('git apply -R _seed/patch.diff', cwd=wt)
  r0 = sh('/venv/bin/python _seed/demo.py', cwd=wt, env=env)
  sh('git apply _seed/patch.diff', cwd=wt)
  out['demo_exit_with_change'] = r1.returncode
  out['demo_exit_without_change'] = r0.returncode
  out['demo_output_with_change'] = (r1.stdout + r1.stderr)[-600:]
  ok = not missing and r1.returncode != 0 and r0.returncode == 0 and diff.strip()
  out['confirmed'] = bool(ok)
  # 4. copy
  dst = f'/verif/seeded/{name}'
  os.makedirs(dst, exist_ok=True)
  for f in ('patch.diff', 'demo.py', 'meta.json'):
    if os.path.exists(os.path.join(seed, f)):
      shutil.copy(os.path.join(seed, f), os.path.join(dst, f if f != 'meta.json' else 'agent_meta.json'))
  # 5. run checks against it
  assert sh('git status --porcelain --untracked-files=no', cwd='/repo').stdout.strip() == '', '/repo dirty'
  ap = sh(f'git apply {dst}/patch.diff', cwd='/repo')
  out['apply'] = ap.returncode
  res = {}
  try:
    if ap.returncode == 0:
      for c in checks:
        t0 = time.time()
        r = sh(f'./check {c} --tier {tier}', cwd='/verif', timeout=7200)
        lines = [l for l in r.stdout.splitlines() if l.startswith(('VIOLATION', '  obligation', 'INCONCLUSIVE', 'KNOWN'))]
        res[c] = {'tier': tier, 'exit': r.returncode, 'wall_s': round(time.time() - t0, 1), 'report': [l[:400] for l in lines[:6]]}
  finally:
    sh('git checkout -- .', cwd='/repo')
  out['checks'] = res
  out['detected'] = any(v['exit'] == 1 for v in res.values())
  meta = {}
  if os.path.exists(os.path.join(dst, 'agent_meta.json')):
    try: meta = json.load(open(os.path.join(dst, 'agent_meta.json')))
    except Exception: meta = {}
  prev = {}
  if os.path.exists(os.path.join(dst, 'meta.json')):
    try: prev = json.load(open(os.path.join(dst, 'meta.json'))).get('what_i_ran', {}).get('checks', {})
    except Exception: prev = {}
  merged = dict(prev); merged.update(res)
  out['checks'] = merged
  out['detected_by'] = sorted(c for c, v in merged.items() if v['exit'] == 1)
  final = {'property': pid, 'breaks': meta.get('summary', ''), 'needs': meta.get('needs', ''),
           'files': meta.get('files', []), 'what_i_ran': out}
  json.dump(final, open(os.path.join(dst, 'meta.json'), 'w'), indent=1)
  print(json.dumps({k: out[k] for k in ('confirmed', 'demo_exit_with_change', 'demo_exit_without_change', 'suite_with_change', 'apply', 'detected')}, indent=1))
  for c, v in res.items():
    print(c, v['exit'], v['wall_s'], *v['report'][:3], sep='\n  ')

main()
