"""C05 - stored quantized constants decode to within one step of the originals.

Bit-precise run of the real pipeline (ParamsGenerator -> instruction generator
-> performer -> quantize_tensor/_pack_data) on SYMBOLIC constant contents.
For every rewritten constant:
  (1) buffer length == what the tensor's shape/dtype implies (int4: 2/byte);
  (2) the harness's own decoder (low nibble first, sign extension, little
      endian) applied to the stored byte terms gives back, element by element,
      the integer the reference formula clip(rint(x*(1/s_c)+z_c)) yields with
      the parameters of the element's OWN channel (term equality, z3);
      decided as: stored bytes decode to the library's quantized integers
      [pure bit-vector lemma, integers abstracted by fresh variables within
      the range C17 proves] and those integers equal the reference terms;
  (3) float16 constants are the little-endian RNE binary16 of the originals;
  (4) biases are clip(rint(b*(1/(s_in*s_w[c])))) as int32/int64.
The real-valued error bound (half a step symmetric / one step asymmetric) then
follows from C17's round-trip lemma for parameters within its guarantee
(element within its channel's min/max by construction of the reference
parameters, C04); it is additionally checked concretely by C15's decoder
oracle.
"""
from __future__ import annotations

import copy
import types
import numpy as np
import z3

from props import pipeline as P
from props.common import Candidate, Job, JobResult
from symx import backends as B
from symx import decoder, oracles, patch, skeletons, spec, symnp
from symx.core import Engine, Stats, Inconclusive, z3val_to_py, fpbits_to_float
from symx.symnp import SymArray

from ai_edge_quantizer import model_modifier, params_generator, qtyping
from ai_edge_quantizer import recipe_manager
from ai_edge_quantizer.transformations import quantize_tensor as qt_mod
from ai_edge_quantizer.algorithms.nonlinear_quantize import float_casting
from ai_edge_quantizer.algorithms.uniform_quantize import uniform_quantize_tensor as uqt
from ai_edge_quantizer.algorithms.utils import min_max_quantize_utils as mmu
from ai_edge_litert import schema_py_generated as S
from tensorflow.lite.tools import flatbuffer_utils

PROP = 'C05'
LEVEL = 'model_checking'
FUNCS = [qt_mod.quantize_tensor, qt_mod._pack_data,
         qt_mod.quant_params_to_tflite_type,
         qt_mod.nonlinear_quant_params_to_tflite_type,
         uqt.uniform_quantize, uqt.fix_quantization_params_rank,
         uqt._round_and_clip, uqt.assign_quantized_type,
         uqt.symmetric_quantize_bias_tensor, mmu.init_tensor_min_max,
         mmu._get_tensor_quant_params, float_casting.materialize_fc_conv,
         params_generator.ParamsGenerator.generate_quantization_parameters,
         model_modifier.ModelModifier.modify_model]
ASSUMPTIONS = [
    'constants: arbitrary finite float32 contents (symbolic); shapes bounded '
    '(<= 6 elements incl. odd counts 1,3,5; ranks 1-4; every quantized '
    'dimension the op table allows)',
    'the library quantized integer of an element lies in the (narrow) range of '
    'its bit width - proved for all inputs in C17 (quantize.in_range) - is '
    'used as a fact in the pure bit-vector packing lemma',
    'real-valued error bound: C17 round-trip lemma + C04 (parameters are the '
    'reference parameters of the element\'s own channel); composition on paper',
    'FlatBuffers builder intercepted (captured ModelT inspected)',
]
BOUNDS = {
    'quick': {'weight shapes': 'FC (1,1) (1,3) (3,1) (5,1) (2,3); EMBEDDING '
              '(3,1); CONV (2,1,1,2); DW (1,1,1,3); TRANSPOSE_CONV (2,1,1,1); '
              'BMM rhs (1,2,3) adjY in {0,1}; ADD const (1,3)',
              'modes': 'WO8/WO4 sym+asym x channel/tensor, DRQ8/DRQ4, FP16, '
                       'SRQ8 (weights+bias+activation-config constants)',
              'pack lemma': 'all int4 vectors of length 1..9'},
    'thorough': {'weight shapes': 'quick + FC (3,2) (1,5), CONV (3,1,1,1), '
                 'EMBEDDING (5,1)', 'modes': 'quick + SRQ16',
                 'pack lemma': 'lengths 1..13'},
}
REACH = {'const': ['rewritten'], 'pack': ['pack'], 'written': ['written']}
TT = S.TensorType
F32 = z3.Float32()
RNE = z3.RNE()


def _fin(t):
  return z3.Not(z3.Or(z3.fpIsNaN(t), z3.fpIsInf(t)))


# ---------------------------------------------------------------------------
# models
# ---------------------------------------------------------------------------
def build(kind, wshape):
  mb = skeletons.ModelBuilder()
  g = mb.subgraph()
  if kind == 'FC':
    units, nin = wshape
    x = g.input('x', (1, nin))
    g.output(g.fc(x, 'y', units=units, bias=True,
                  w=np.ones(wshape, np.float32)))
  elif kind == 'FC_NOBIAS':
    units, nin = wshape
    x = g.input('x', (1, nin))
    g.output(g.fc(x, 'y', units=units, bias=False,
                  w=np.ones(wshape, np.float32)))
  elif kind == 'EMBEDDING':
    ids = g.input('ids', (2,), np.int32)
    g.output(g.embedding(ids, 'y', vocab=wshape[0], dim=wshape[1]))
  elif kind == 'CONV':
    x = g.input('x', (1, 2, 2, wshape[3]))
    g.output(g.conv2d(x, 'y', filters=wshape[0]))
  elif kind == 'DW':
    x = g.input('x', (1, 2, 2, wshape[3]))
    g.output(g.dwconv2d(x, 'y'))
  elif kind == 'TCONV':
    x = g.input('x', (1, 2, 2, wshape[3]))
    g.output(g.transpose_conv(x, 'y', filters=wshape[0]))
  elif kind in ('BMM', 'BMM_ADJY'):
    adj = kind == 'BMM_ADJY'
    k = wshape[2] if adj else wshape[1]
    x = g.input('x', (1, 2, k))
    g.output(g.bmm(x, None, 'y', adj_y=adj, const_rhs_shape=wshape))
  elif kind == 'ADD_CONST':
    x = g.input('x', wshape)
    c = g.const('c', np.ones(wshape, np.float32))
    g.output(g.binary('ADD', x, c, 'y'))
  elif kind in ('MUL_CONST', 'SUB_CONST'):
    x = g.input('x', wshape)
    c = g.const('c', np.ones(wshape, np.float32))
    g.output(g.binary(kind[:3], x, c, 'y'))
  elif kind == 'CONCAT_CONST2':
    # two constant operands of different content and shape
    x = g.input('x', wshape)
    c1 = g.const('c1', np.ones(wshape, np.float32))
    c2 = g.const('c2', np.ones((wshape[0], wshape[1] - 1), np.float32))
    g.output(g.concat([x, c1, c2], 'y'))
  elif kind == 'CONCAT_CONST':
    # a constant operand of an op whose inputs take the OUTPUT's parameters
    x = g.input('x', wshape)
    c = g.const('c', np.ones(wshape, np.float32))
    g.output(g.concat([x, c], 'y'))
  else:
    raise ValueError(kind)
  return mb.build()


WO = lambda bits, sym, gran: [dict(
    regex='.*', operation='*', algorithm_key='min_max_uniform_quantize',
    op_config=dict(weight_tensor_config=dict(
        num_bits=bits, symmetric=sym, granularity=gran, dtype='INT',
        block_size=0), compute_precision='FLOAT', explicit_dequantize=True,
                   skip_checks=False))]
DRQ = lambda bits, gran: [dict(
    regex='.*', operation='*', algorithm_key='min_max_uniform_quantize',
    op_config=dict(weight_tensor_config=dict(
        num_bits=bits, symmetric=True, granularity=gran, dtype='INT',
        block_size=0), compute_precision='INTEGER', explicit_dequantize=False,
                   skip_checks=False))]


def srq(abits, wbits, gran):
  return [dict(regex='.*', operation='*',
               algorithm_key='min_max_uniform_quantize',
               op_config=dict(
                   activation_tensor_config=dict(
                       num_bits=abits, symmetric=abits == 16,
                       granularity='TENSORWISE', dtype='INT', block_size=0),
                   weight_tensor_config=dict(
                       num_bits=wbits, symmetric=True, granularity=gran,
                       dtype='INT', block_size=0),
                   compute_precision='INTEGER', explicit_dequantize=False,
                   skip_checks=False))]


def cases(tier):
  shapes = [('FC', (1, 1)), ('FC', (1, 3)), ('FC', (3, 1)), ('FC', (5, 1)),
            ('FC_NOBIAS', (2, 3)), ('EMBEDDING', (3, 1)),
            ('CONV', (2, 1, 1, 2)), ('DW', (1, 1, 1, 3)),
            ('TCONV', (2, 1, 1, 1)), ('BMM', (1, 2, 3)),
            ('BMM_ADJY', (1, 3, 2))]
  if tier == 'thorough':
    shapes += [('FC', (3, 2)), ('FC', (1, 5)), ('CONV', (3, 1, 1, 1)),
               ('EMBEDDING', (5, 1))]
  cs = []
  for kind, shp in shapes:
    for bits in (8, 4):
      for gran in ('CHANNELWISE', 'TENSORWISE'):
        for sym in (True, False):
          cs.append((kind, shp, f'WO{bits}{"s" if sym else "a"}{gran[0]}',
                     WO(bits, sym, gran)))
        cs.append((kind, shp, f'DRQ{bits}{gran[0]}', DRQ(bits, gran)))
    if kind in ('FC', 'FC_NOBIAS', 'CONV', 'DW', 'TCONV', 'EMBEDDING'):
      cs.append((kind, shp, 'FP16', [P.rule('.*', '*', 'FP16')]))
    if kind not in ('EMBEDDING',):
      cs.append((kind, shp, 'SRQ8C', srq(8, 8, 'CHANNELWISE')))
      if kind in ('FC', 'CONV'):
        cs.append((kind, shp, 'SRQ8w4T', srq(8, 4, 'TENSORWISE')))
      if tier == 'thorough':
        cs.append((kind, shp, 'SRQ16C', srq(16, 8, 'CHANNELWISE')))
  cs.append(('ADD_CONST', (1, 3), 'SRQ8C', srq(8, 8, 'CHANNELWISE')))
  for kind in ('MUL_CONST', 'SUB_CONST', 'CONCAT_CONST', 'CONCAT_CONST2'):
    # the rule names the operator (with '*' the virtual INPUT op is quantized
    # too and the pipeline compares two symbolic float32 scales for equality -
    # a branch the bit-precise solver does not decide within the budget; the
    # constant's treatment does not depend on it)
    opn = {'MUL': 'MUL', 'SUB': 'SUB', 'CON': 'CONCATENATION'}[kind[:3]]
    cs.append((kind, (1, 3), 'SRQ8C', [dict(srq(8, 8, 'CHANNELWISE')[0],
                                            operation=opn)]))
    if tier == 'thorough':
      cs.append((kind, (1, 2), 'SRQ16C', [dict(srq(16, 8, 'CHANNELWISE')[0],
                                               operation=opn)]))
  return cs


# ---------------------------------------------------------------------------
# symbolic run of the whole pipeline with symbolic constants
# ---------------------------------------------------------------------------
def run(e, model_bytes, recipe):
  be = symnp.set_backend(B.Bits())
  be.reset()
  pristine = flatbuffer_utils.read_model_from_bytearray(bytearray(model_bytes))
  consts = {}

  def sym_model():
    m = flatbuffer_utils.read_model_from_bytearray(bytearray(model_bytes))
    for si, sg in enumerate(m.subgraphs):
      for ti, t in enumerate(sg.tensors):
        if t.type == 0 and oracles.has_data(m, t):
          if t.buffer not in consts:
            n = decoder.numel(t.shape)
            arr = SymArray.fresh(f'c_s{si}_t{ti}', (n,), np.float32)
            for x in arr.el:
              e.assume(_fin(x))
            consts[t.buffer] = arr
          m.buffers[t.buffer].data = consts[t.buffer]
    return m

  rm = recipe_manager.RecipeManager()
  rm.load_quantization_recipe(copy.deepcopy(recipe))
  qsvs = P.symbolic_qsvs(e, pristine, 'BITS') if rm.need_calibration() else None
  captured = []
  stub = types.SimpleNamespace(
      read_model_from_bytearray=lambda _: sym_model(),
      convert_object_to_bytearray=lambda m: captured.append(m) or bytearray())
  out = {'pristine': pristine, 'consts': consts, 'rm': rm, 'raised': None,
         'qsvs': qsvs}
  with patch.symbolic_numpy(), patch.rebind(
      'ai_edge_quantizer.utils.tfl_flatbuffer_utils', 'read_model',
      lambda _: sym_model()), patch.rebind(
          'ai_edge_quantizer.model_modifier', 'flatbuffer_utils', stub):
    try:
      pg = params_generator.ParamsGenerator(model_bytes)
      params = pg.generate_quantization_parameters(
          rm, None if qsvs is None else {k: dict(v) for k, v in qsvs.items()})
      out['params'] = params
      model_modifier.ModelModifier(model_bytes).modify_model(params)
      out['model'] = captured[0]
    except Inconclusive:
      raise
    except Exception as ex:  # pylint: disable=broad-except
      out['raised'] = ex
  return out


def byte_terms(data):
  """buffer.data -> list of 8-bit BV terms (or None if not byte-like)."""
  if isinstance(data, SymArray):
    if data.dtype != np.uint8:
      return None
    return [symnp.backend().lift(data.dtype, x) for x in data.el]
  if isinstance(data, symnp.SymBytes):
    return data.byte_terms()
  arr = np.frombuffer(bytes(np.asarray(data, np.uint8)), np.uint8)
  return [z3.BitVecVal(int(b), 8) for b in arr]


def decode_terms(bs, ttype, n):
  """Independent decoder on byte terms -> list of 32-bit signed BV terms
  (64-bit for INT64), or float16 BV16 patterns."""
  out = []
  if ttype == TT.INT4:
    for i in range(n):
      b = bs[i // 2]
      nib = z3.Extract(3, 0, b) if i % 2 == 0 else z3.Extract(7, 4, b)
      out.append(z3.SignExt(28, nib))
    return out
  w = decoder.ITEMSIZE[ttype]
  for i in range(n):
    chunk = bs[i * w:(i + 1) * w]
    bv = z3.Concat(*reversed(chunk)) if w > 1 else chunk[0]
    if ttype in (TT.INT8, TT.INT16):
      bv = z3.SignExt(32 - 8 * w, bv)
    out.append(bv)
  return out


def mirror_quantize(x, scale, zp_el, zp_dt, bits, narrow, out_dt):
  """clip(rint(x*(1/s)+zp)) cast to out_dt: the specified formula, built with
  the same primitive operations as IEEE float32 NumPy, on the parameters the
  harness selects for this element."""
  be = B.Bits()
  qmin, qmax = spec.qrange(bits)
  if narrow:
    qmin += 1
  inv = z3.fpDiv(RNE, spec.fp(1.0), scale)
  y = z3.fpMul(RNE, x, inv)
  f32 = np.dtype(np.float32)
  rdt = np.result_type(np.float32, zp_dt)
  zt = zp_el if not B.is_conc(zp_el) else be.const(zp_dt, zp_el)
  if rdt == np.float32:
    y = z3.fpAdd(RNE, y, be.cast(zp_dt, f32, zt))
    lo, hi = spec.fp(float(qmin)), spec.fp(float(qmax))
  else:
    f64 = np.dtype(np.float64)
    y = z3.fpAdd(RNE, be.cast(f32, f64, y), be.cast(zp_dt, f64, zt))
    lo, hi = be.const(f64, float(qmin)), be.const(f64, float(qmax))
    if bits == 64:
      hi = be.const(f64, float(np.nextafter(float(qmax), 0.0)))
  r = z3.fpRoundToIntegral(RNE, y)
  c = spec.fmin(spec.fmax(r, lo), hi)
  q = be.cast(np.dtype(rdt), np.dtype(out_dt), c)
  w = np.dtype(out_dt).itemsize * 8
  return q if w >= 32 else z3.SignExt(32 - w, q)


def check_constant(e, out, si, ti, resolved):
  """Obligations for original float constant (si, ti)."""
  m0, m1 = out['pristine'], out['model']
  t0 = m0.subgraphs[si].tensors[ti]
  t1 = m1.subgraphs[si].tensors[ti]
  nm = oracles.tname(t0)
  data = m1.buffers[t1.buffer].data
  x = out['consts'][t0.buffer]
  n = decoder.numel(t0.shape)
  if t1.type == TT.FLOAT32:
    e.check('C05.untouched_constant_is_original',
            data is x or (isinstance(data, SymArray) and data.el == x.el),
            info=[nm])
    return
  e.reach('rewritten')
  bs = byte_terms(data)
  e.check('C05.buffer_is_bytes', bs is not None, info=[nm])
  if bs is None:
    return
  want = decoder.expected_nbytes(t1.type, t0.shape)
  e.check('C05.buffer_length_matches_shape_and_dtype', len(bs) == want,
          info=[nm, len(bs), want, int(t1.type)])
  if len(bs) != want:
    return
  if t1.type == TT.FLOAT16:
    for i in range(n):
      ref = z3.fpToIEEEBV(z3.fpFPToFP(RNE, x.el[i], z3.Float16()))
      got = z3.Concat(bs[2 * i + 1], bs[2 * i])
      e.check('C05.float16_is_rne_of_original', got == ref, info=[nm, i])
    return
  vals = decode_terms(bs, t1.type, n)
  q = t1.quantization
  e.check('C05.quantized_constant_has_parameters',
          q is not None and q.scale is not None and len(q.scale) >= 1
          and len(q.scale) == len(q.zeroPoint), info=[nm])
  if q is None or q.scale is None:
    return
  nch = len(q.scale)
  qdim = q.quantizedDimension or 0
  shape = tuple(int(s) for s in t0.shape)
  if nch > 1:
    e.check('C05.channel_count_is_dimension_size',
            len(shape) > qdim and shape[qdim] == nch, info=[nm, nch, qdim])
    if not (len(shape) > qdim and shape[qdim] == nch):
      return
  bits = {TT.INT4: 4, TT.INT8: 8, TT.INT16: 16, TT.INT32: 32, TT.INT64: 64}[
      t1.type]
  # the stored parameters are the spec parameters of the element's own
  # channel statistics (so that C17's round-trip lemma applies to them and the
  # decoded value is within half a step / one step of the original)
  tc = resolved.get('tc')
  inh = resolved.get('inherits')
  if tc is not None and inh is not None and out.get('qsvs') and \
      inh in out['qsvs']:
    # the constant takes ANOTHER tensor's parameters (inputs of an op whose
    # inputs share the output's): the stored parameters are the spec
    # parameters of that tensor's statistics; by the calibration contract
    # (C09: statistics are moving averages of the true per-sample range, and
    # that tensor contains this constant in every sample) the constant lies
    # inside that range - assumed here, which is what makes C17's round-trip
    # lemma applicable
    omn, omx = out['qsvs'][inh]['min'].el[0], out['qsvs'][inh]['max'].el[0]
    for xi in x.el:
      e.assume(z3.And(z3.fpLEQ(omn, xi), z3.fpLEQ(xi, omx)), check=False)
    zp_ref, sc_ref, zpf = spec.zp_scale(omn, omx, tc.num_bits, tc.symmetric,
                                        True)
    s_arr = q.scale[0] if isinstance(q.scale[0], SymArray) else \
        SymArray.from_numpy(np.asarray(q.scale[0], np.float32))
    e.check('C05.inherited_parameters_are_spec_parameters_of_their_source',
            z3.And(nch == 1, symnp.astype(s_arr, np.float32).terms()[0]
                   == sc_ref), info=[nm, inh, 'scale'])
    if zpf is not None:
      zdt = np.dtype(np.int8 if tc.num_bits <= 8 else np.int16)
      zref = z3.SignExt(64 - zdt.itemsize * 8,
                        B.Bits().cast(np.dtype(np.float32), zdt, zpf))
      z_arr = q.zeroPoint[0] if isinstance(q.zeroPoint[0], SymArray) else \
          SymArray.from_numpy(np.asarray(q.zeroPoint[0]))
      e.check('C05.inherited_parameters_are_spec_parameters_of_their_source',
              symnp.astype(z_arr, np.int64).terms()[0] == zref,
              info=[nm, inh, 'zero point'])
  elif tc is not None:
    shape_ = tuple(int(v) for v in t0.shape)
    idxa = np.arange(n).reshape(shape_) if shape_ else np.arange(1)
    for c in range(nch):
      sel = (np.take(idxa, c, axis=qdim).reshape(-1) if nch > 1
             else idxa.reshape(-1))
      els = [x.el[i] for i in sel]
      zp_ref, sc_ref, zpf = spec.zp_scale(spec.fold_min(els),
                                          spec.fold_max(els), tc.num_bits,
                                          tc.symmetric, True)
      s_el, z_el = q.scale[c], q.zeroPoint[c]
      s_arr = s_el if isinstance(s_el, SymArray) else SymArray.from_numpy(
          np.asarray(s_el, np.float32))
      z_arr = z_el if isinstance(z_el, SymArray) else SymArray.from_numpy(
          np.asarray(z_el))
      e.check('C05.parameters_are_spec_parameters_of_own_channel',
              symnp.astype(s_arr, np.float32).terms()[0] == sc_ref,
              info=[nm, c, 'scale'])
      if zpf is not None:
        zdt = np.dtype(np.int8 if tc.num_bits <= 8 else np.int16)
        zref = z3.SignExt(64 - zdt.itemsize * 8,
                          B.Bits().cast(np.dtype(np.float32), zdt, zpf))
        zgot = symnp.astype(z_arr, np.int64).terms()[0]
        e.check('C05.parameters_are_spec_parameters_of_own_channel',
                zgot == zref, info=[nm, c, 'zero point'])
        # (that the reference zero point lies in the integer range is a fact
        # about the spec formula: C17 Lemma P)
  out_dt = {4: np.int8, 8: np.int8, 16: np.int16, 32: np.int32, 64: np.int64}[
      bits]
  idx = list(np.ndindex(*shape)) if shape else [()]
  kind = resolved
  for flat, mi in enumerate(idx):
    c = mi[qdim] if nch > 1 else 0
    s_el = q.scale[c]
    z_el = q.zeroPoint[c]
    s_arr = s_el if isinstance(s_el, SymArray) else SymArray.from_numpy(
        np.asarray(s_el, np.float32))
    z_arr = z_el if isinstance(z_el, SymArray) else SymArray.from_numpy(
        np.asarray(z_el))
    s_t = symnp.astype(s_arr, np.float32).terms()[0]
    # zero point as stored (int64 in the flatbuffer): the library quantizes
    # with its own narrow zero point; symmetric weights/bias have 0
    zp_dt = np.dtype(np.int8 if bits <= 8 else np.int16 if bits == 16
                     else np.int32)
    z_t = symnp.astype(z_arr, zp_dt).el[0]
    narrow = kind['symmetric']
    ref = mirror_quantize(x.el[flat], s_t, z_t, zp_dt, bits, narrow, out_dt)
    v = vals[flat]
    if bits == 64:
      ref = z3.SignExt(32, ref) if ref.size() == 32 else ref
    if t1.type != TT.INT4:
      e.check('C05.stored_value_is_reference_quantization_of_own_channel',
              v == ref, info=[nm, flat, c])
      continue
    # int4: two steps.  (i) the library's integer for this element is the
    # reference integer; (ii) pure bit-vector: the stored nibbles decode to
    # the library's integers, for ANY integers in the 4-bit range (the
    # integers are abstracted by fresh variables; their range is C17
    # quantize.in_range).
    qlib = _library_integers(out, nm, n)
    e.check('C05.int4.library_integers_available', qlib is not None, info=[nm])
    if qlib is None:
      return
    ql = qlib[flat]
    ql32 = z3.SignExt(32 - ql.size(), ql) if ql.size() < 32 else ql
    e.check('C05.stored_value_is_reference_quantization_of_own_channel',
            ql32 == ref, info=[nm, flat, c])
    fresh = [z3.BitVec(f'abs_{nm}_{i}', t.size()) for i, t in enumerate(qlib)]
    sub = [(t, fv) for t, fv in zip(qlib, fresh) if not z3.is_bv_value(t)]
    v_abs = z3.substitute(v, *sub) if sub else v
    tgt = fresh[flat] if not z3.is_bv_value(qlib[flat]) else qlib[flat]
    lo = -7 if narrow else -8
    facts = [z3.And(fv >= lo, fv <= 7) for fv in fresh]
    e.check('C05.int4.stored_nibbles_decode_to_library_integers',
            v_abs == z3.SignExt(32 - tgt.size(), tgt), only_facts=facts,
            info=[nm, flat])


def _library_integers(out, name, n):
  r = out['params'].get(name)
  if r is None:
    return None
  for c in (r.consumers or []):
    p = c.parameters
    if p is not None and getattr(p, 'quantized_data', None) is not None:
      qd = p.quantized_data
      arr = qd if isinstance(qd, SymArray) else SymArray.from_numpy(
          np.asarray(qd))
      if arr.size != n:
        return None
      return [symnp.backend().lift(arr.dtype, x) for x in arr.flatten().el]
  return None


SAME_AS_OUTPUT_OPS = (oracles.BO.CONCATENATION,)


def make_harness(kind, wshape, recipe):
  mb = build(kind, wshape)

  def h(e):
    out = run(e, mb, recipe)
    if out['raised'] is not None:
      e.check('C05.accepted_config_does_not_raise', False,
              info=[f"{type(out['raised']).__name__}: "
                    f"{str(out['raised'])[:160]}"])
      return
    m0 = out['pristine']
    res = P.Outcome()
    res.input_model, res.recipe_manager = m0, out['rm']
    resolve = P.resolver(res)
    for si, sg in enumerate(m0.subgraphs):
      for oi, op in enumerate(sg.operators):
        r = resolve(si, oi)
        if r is None:
          continue
        cfg = r[1]
        for k, i in enumerate(op.inputs):
          if i == -1:
            continue
          t = sg.tensors[i]
          if t.type != 0 or not oracles.has_data(m0, t):
            continue
          widx, bidx = oracles.WEIGHT_OPS.get(
              m0.operatorCodes[op.opcodeIndex].builtinCode, (None, None))
          is_bias = bidx is not None and k == bidx
          tc = cfg.weight_tensor_config if widx is not None else \
              cfg.activation_tensor_config
          code = m0.operatorCodes[op.opcodeIndex].builtinCode
          inherits = None
          if code in SAME_AS_OUTPUT_OPS and len(op.outputs) == 1:
            inherits = oracles.tname(sg.tensors[op.outputs[0]])
          check_constant(e, out, si, i, {
              'symmetric': True if is_bias or tc is None else tc.symmetric,
              'tc': None if is_bias else tc, 'inherits': inherits})
  return h


def h_pack(n):
  """decode(pack(b)) == b for every int4 vector b of length n (values as the
  library stores them: int8 in [-8, 7]), through the real _pack_data and the
  real byte view used by quantize_tensor."""
  def h(e):
    be = symnp.set_backend(B.Bits())
    be.reset()
    b = SymArray.fresh('q', (n,), np.int8)
    for x in b.el:
      e.assume(z3.And(x >= -8, x <= 7))
    with patch.symbolic_numpy():
      flat = symnp.frombuffer(b.tobytes(), dtype=np.uint8).flatten()
      try:
        packed = qt_mod._pack_data(4, flat)
      except Inconclusive:
        raise
      except Exception as ex:  # pylint: disable=broad-except
        e.reach('pack')
        e.check('C05.pack.does_not_raise', False,
                info=[n, f'{type(ex).__name__}: {ex}'])
        return
    e.reach('pack')
    bs = byte_terms(packed)
    e.check('C05.pack.length', bs is not None and len(bs) == (n + 1) // 2)
    if bs is None or len(bs) != (n + 1) // 2:
      return
    vals = decode_terms(bs, TT.INT4, n)
    for i in range(n):
      e.check('C05.pack.decode_of_pack_is_identity',
              vals[i] == z3.SignExt(24, b.el[i]), info=[n, i])
    if n % 2:
      e.check('C05.pack.odd_tail_padded_with_zero',
              z3.Extract(7, 4, bs[-1]) == 0, info=[n])
    # 8-bit data is stored unchanged
    with patch.symbolic_numpy():
      same = qt_mod._pack_data(8, flat)
    e.check('C05.pack.wider_data_not_packed',
            isinstance(same, SymArray) and same.el == flat.el)
  return h


def job_case(job):
  st = Stats()
  cands, inconc, samples = [], [], []
  allc = {(k, tuple(s), r): rec for k, s, r, rec in cases(job.args['tier'])}
  for kind, shp, rname in job.args['cases']:
    recipe = allc[(kind, tuple(shp), rname)]
    en = Engine(solver_timeout_ms=60000, max_paths=100, wall_budget_s=600,
                oneshot_checks=True)
    en.falsify_first = True
    en.stop_path_on_violation = True
    en.explore(make_harness(kind, tuple(shp), recipe), stop_on_violation=True)
    st.merge(en.stats)
    inconc += [f'{kind}{shp}/{rname}: {x}' for x in en.inconclusive]
    for v in en.violations[:1]:
      c = Candidate(v.name, {
          'kind': kind, 'shape': list(shp), 'recipe': rname, 'info': v.info,
          'stats': {k: z3val_to_py(x) for k, x in v.model_values.items()}})
      c.job = job.name
      cands.append(c)
    if len(samples) < 2:
      samples.append(f'{kind} weight shape {tuple(shp)} x {rname}: '
                     f'{en.stats.obligations} obligations')
  return JobResult(job.name, st.as_dict(), cands, inconc, {}, samples=samples)


def job_pack(job):
  st = Stats()
  inconc, cands = [], []
  for n in job.args['lengths']:
    en = Engine(solver_timeout_ms=60000)
    en.explore(h_pack(n))
    st.merge(en.stats)
    inconc += en.inconclusive
    for v in en.violations[:1]:
      c = Candidate(v.name, {'pack_n': n, 'info': v.info, 'stats': {
          k: z3val_to_py(x) for k, x in v.model_values.items()}})
      c.job = job.name
      cands.append(c)
  return JobResult(job.name, st.as_dict(), cands, inconc, {},
                   samples=[f'pack/decode lemma for all int4 vectors of '
                            f'lengths {job.args["lengths"]}'])


def job_written(job):
  """Concrete: the property speaks about the bytes of the OUTPUT model; the
  symbolic runs stop at the captured model object.  Here the real serializer
  writes it, in the ordinary and in the large-model form (hook), the file is
  read back and every rewritten constant is decoded by the independent
  decoder."""
  import os as _os
  from ai_edge_quantizer import quantizer as quantizer_lib
  n, cands = 0, []
  picks = [('FC', (3, 1), 'WO8sC'), ('FC', (5, 1), 'WO4sT'),
           ('CONV', (2, 1, 1, 2), 'DRQ8C'), ('DW', (1, 1, 1, 3), 'WO8aC'),
           ('EMBEDDING', (3, 1), 'WO8sC'), ('TCONV', (2, 1, 1, 1), 'SRQ8C'),
           ('BMM', (1, 2, 3), 'WO8sC'), ('FC', (1, 3), 'FP16')]
  allc = {(k, tuple(s_), r): rec for k, s_, r, rec in cases('thorough')}
  from props import pipeline as PP_
  extra = [(PP_.model_bytes_of(sk), rec, sk + '/' + rn) for sk, rn, rec in (
      ('fc_fc', 'WO', [PP_.rule('.*', '*', 'WO')]),
      ('chain_fc_tanh', 'a8w8', PP_.recipe_family(
          PP_.model_bytes_of('chain_fc_tanh'), 'quick')[
              'shipped:default_a8w8_recipe.json']),
      ('two_subgraphs_independent', 'DRQ', [PP_.rule('.*', '*', 'DRQ')]))]
  todo = [(build(k, s_), allc[(k, s_, r)], f'{k}{list(s_)}/{r}')
          for k, s_, r in picks if (k, s_, r) in allc] + extra
  for mb, recipe, what in todo:
    inp = flatbuffer_utils.read_model_from_bytearray(bytearray(mb))
    for large in (False, True):
      n += 1
      env = dict(_os.environ)
      try:
        if large:
          _os.environ['AI_EDGE_QUANTIZER_VERIF'] = '1'
          _os.environ['AI_EDGE_QUANTIZER_VERIF_LARGE_MODEL_THRESHOLD'] = '-1'
        else:
          _os.environ.pop('AI_EDGE_QUANTIZER_VERIF', None)
        q = quantizer_lib.Quantizer(mb, copy.deepcopy(recipe))
        qsvs = P.concrete_qsvs(inp, None) if q.need_calibration else None
        with np.errstate(all='ignore'):
          data = bytes(q.quantize(qsvs).quantized_model)
        out = flatbuffer_utils.read_model_from_bytearray(bytearray(data))
        pr = concrete_problems(inp, out)
      except Exception as ex:  # pylint: disable=broad-except
        pr = [f'{type(ex).__name__}: {ex}']
      finally:
        _os.environ.clear()
        _os.environ.update(env)
      if pr:
        cands.append(Candidate('C05.written_model_decodes_to_the_constants', {
            'written': True, 'what': what,
            'form': 'large-model' if large else 'ordinary', 'problems': pr[:3]}))
  st = {'paths': n, 'decisions': n, 'obligations': n,
        'discharged': n - len(cands), 'solver_calls': 0, 'solver_time': 0.0,
        'reached': {'written': n}}
  for c in cands:
    c.job = job.name
  return JobResult(job.name, st, cands[:4], [], {}, samples=[
      f'{n} written models (ordinary and large-model form) read back and '
      'decoded'])


def jobs(tier, seed):
  cs = [(k, list(s), r) for k, s, r, _ in cases(tier)]
  js = []
  chunk = 8
  for i in range(0, len(cs), chunk):
    js.append(Job(f'const:{i // chunk}', job_case,
                  {'tier': tier, 'cases': cs[i:i + chunk]}))
  top = 9 if tier == 'quick' else 13
  js.append(Job('pack:lemma', job_pack, {'lengths': list(range(1, top + 1))}))
  js.append(Job('written', job_written, {}))
  return js


# ---------------------------------------------------------------------------
# replay: concrete constants through the public Quantizer, independent decoder
# ---------------------------------------------------------------------------
def replay(c):
  from ai_edge_quantizer import quantizer as quantizer_lib
  d = c['data']
  if d.get('written'):
    r = job_written(Job('written', job_written, {}))
    pr = [f"{cc.data['what']} [{cc.data['form']}]: {cc.data['problems'][:2]}"
          for cc in r.candidates]
    return bool(pr), 'written model: ' + (
        r.candidates[0].data['form'] if r.candidates else ''), str(pr[:2])
  stats = d.get('stats') or {}
  if 'pack_n' in d:
    n = d['pack_n']
    w = [int(stats.get(f'q_{i}', 0)) for i in range(n)]
    w = [x - 256 if x >= 128 else x for x in w]
    b = np.array(w, np.int8)
    try:
      packed = qt_mod._pack_data(
          4, np.frombuffer(b.tobytes(), np.uint8).flatten())
    except Exception as ex:  # pylint: disable=broad-except
      return True, 'pack-raises', f'b={b.tolist()}: {type(ex).__name__}: {ex}'

    if len(packed) != (n + 1) // 2:
      return True, 'pack-length', (f'b={b.tolist()} packed into '
                                   f'{len(packed)} bytes')
    got = decoder.decode(bytes(np.asarray(packed, np.uint8)), TT.INT4, (n,))
    return (not np.array_equal(got, b)), \
        'pack', f'b={b.tolist()} packed={np.asarray(packed).tolist()} ' \
                f'decoded={got.tolist()}'
  kind, shp, rname = d['kind'], tuple(d['shape']), d['recipe']
  recipe = {(k, tuple(s), r): rec for k, s, r, rec in cases('thorough')}[
      (kind, shp, rname)]
  mb = build(kind, shp)
  m = flatbuffer_utils.read_model_from_bytearray(bytearray(mb))
  for si, sg in enumerate(m.subgraphs):
    for ti, t in enumerate(sg.tensors):
      if t.type == 0 and oracles.has_data(m, t):
        n = decoder.numel(t.shape)
        vals = [stats.get(f'c_s{si}_t{ti}_{i}') for i in range(n)]
        rng = np.random.default_rng(7)
        arr = []
        for v in vals:
          x = fpbits_to_float(v) if isinstance(v, dict) else float('nan')
          # abstract (pure bit-vector) witnesses carry no constant values:
          # any finite constants will do for those
          arr.append(x if np.isfinite(x) else float(rng.normal()))
        arr = np.array(arr, np.float32)
        m.buffers[t.buffer].data = np.frombuffer(arr.tobytes(), np.uint8)
  model_bytes = bytes(flatbuffer_utils.convert_object_to_bytearray(m))
  inp = flatbuffer_utils.read_model_from_bytearray(bytearray(model_bytes))
  q = quantizer_lib.Quantizer(model_bytes, copy.deepcopy(recipe))
  qsvs = P.concrete_qsvs(inp, stats) if q.need_calibration else None
  try:
    with np.errstate(all='ignore'):
      r = q.quantize(qsvs)
  except Exception as ex:  # pylint: disable=broad-except
    return True, 'raises', f'{type(ex).__name__}: {ex}'
  outm = flatbuffer_utils.read_model_from_bytearray(
      bytearray(r.quantized_model))
  pr = concrete_problems(inp, outm)
  wc = 'stored-constant: ' + (pr[0].split(':')[1].strip()[:50] if pr else '')
  return bool(pr), wc, f'{kind}{shp} x {rname}: {pr[:3]}'


def concrete_problems(inp, out):
  """NumPy transcription of the obligations on a concrete output model."""
  pr = []
  f = np.float32
  for si, (gi, go) in enumerate(zip(inp.subgraphs, out.subgraphs)):
    for ti, t0 in enumerate(gi.tensors):
      if t0.type != TT.FLOAT32 or not oracles.has_data(inp, t0):
        continue
      t1 = go.tensors[ti]
      nm = oracles.tname(t0)
      x = decoder.decode(oracles.buffer_bytes(inp, t0), TT.FLOAT32, t0.shape)
      raw = oracles.buffer_bytes(out, t1)
      if t1.type == TT.FLOAT32:
        if raw != oracles.buffer_bytes(inp, t0):
          pr.append(f'{nm}: float constant changed')
        continue
      want = decoder.expected_nbytes(t1.type, t0.shape)
      if len(raw) != want:
        pr.append(f'{nm}: buffer length {len(raw)} != {want}')
        continue
      vals = decoder.decode(raw, t1.type, tuple(t0.shape))
      if t1.type == TT.FLOAT16:
        if not np.array_equal(vals.view(np.uint16),
                              x.astype(np.float16).view(np.uint16)):
          pr.append(f'{nm}: float16 bytes are not RNE(original)')
        continue
      q = t1.quantization
      sc = np.array([f(v) for v in q.scale], f)
      zp = np.array([int(v) for v in q.zeroPoint])
      qdim = q.quantizedDimension or 0
      bits = {TT.INT4: 4, TT.INT8: 8, TT.INT16: 16, TT.INT32: 32,
              TT.INT64: 64}[t1.type]
      sym = bool(np.all(zp == 0))
      # the property's own statement: decode + dequantize with the tensor's
      # parameters reproduces the original within half a step (symmetric) /
      # one step (asymmetric), element by element
      if bits <= 16:
        deq = decoder.dequantize(vals, sc, zp, qdim, tuple(t0.shape))
        step = sc.astype(np.float64) if len(sc) == 1 else sc.astype(
            np.float64).reshape([len(sc) if dd == qdim else 1
                                 for dd in range(len(t0.shape))])
        lim = step * (0.5 if sym else 1.0) * (1 + 1e-3)
        err = np.abs(deq - x.astype(np.float64))
        if np.any(err > lim):
          k = np.unravel_index(np.argmax(err / np.broadcast_to(
              step, err.shape)), err.shape) if err.shape else ()
          pr.append(f'{nm}: element {tuple(int(v) for v in k)} decodes to '
                    f'{float(deq[k]) if err.shape else float(deq)!r}, original '
                    f'{float(x[k]) if err.shape else float(x)!r}: off by '
                    f'{float(np.max(err / step)):.1f} steps (scale {sc!r}, '
                    f'zero point {zp!r})')
          continue
      for mi in (np.ndindex(*t0.shape) if len(t0.shape) else [()]):
        c = mi[qdim] if len(sc) > 1 else 0
        with np.errstate(all='ignore'):
          inv = f(1.0) / sc[c]
          y = f(x[mi] * inv)
          if bits >= 32:
            y = np.float64(y) + np.float64(zp[c])
          else:
            y = f(y + f(zp[c]))
          qmin, qmax = spec.qrange(bits)
          ok = False
          r = np.rint(y)
          for narrow in (True, False):
            lo = qmin + 1 if narrow else qmin
            hi = float(qmax)
            if bits == 64:
              hi = float(np.nextafter(float(qmax), 0.0))
            ref = int(min(max(r, lo), hi))
            if int(vals[mi]) == ref:
              ok = True
          if not ok:
            pr.append(f'{nm}: element {mi} stored {int(vals[mi])}, reference '
                      f'clip(rint({x[mi]!r}/{sc[c]!r}+{zp[c]})) = {ref}')
            break
  return pr
