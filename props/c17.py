"""C17 - quantization arithmetic obeys its algebraic laws on all inputs.

Runs the real uniform_quantize_tensor functions on SymArrays.  See DESIGN 3/C17.
"""
from __future__ import annotations

import itertools
import numpy as np
import z3

from props.common import Candidate, Job, JobResult, result_from_engines
from symx import backends as B
from symx import patch, symnp
from symx.core import Engine, z3val_to_py, fpbits_to_float
from symx.symnp import SymArray

from ai_edge_quantizer import qtyping
from ai_edge_quantizer.algorithms.uniform_quantize import uniform_quantize_tensor as uqt

PROP = 'C17'
LEVEL = 'proof'
FUNCS = [uqt.get_quantized_range, uqt._round_and_clip,
         uqt.assign_quantized_type, uqt.fix_quantization_params_rank,
         uqt.uniform_quantize, uqt.uniform_dequantize,
         uqt.symmetric_quantize_bias_tensor, uqt.tensor_zp_scale_from_min_max,
         uqt._is_valid_quantization_params]
TRUSTED = ['z3 5.1 (QF_FP / QF_BV / QF_NRA / QF_UF)',
           'symx.symnp shim, validated against real NumPy by selftest',
           'RERR rounding model fl(v)=v(1+e),|e|<=2^-24 (+ denormal term)',
           'x86-64 NumPy float32 semantics (IEEE-754 RNE)']
ASSUMPTIONS = [
    'min/max statistics and data are float32 (the dtype the library produces '
    'from float32 models); finite inputs',
    'num_bits in {4,8,16}; signed integer types only (the only ones the '
    'library produces)',
    'module global np of uniform_quantize_tensor/qtyping rebound to the '
    'symbolic NumPy proxy',
    'RERR obligations: real arithmetic with relative rounding error 2^-24 per '
    'float32 operation and absolute error 2^-150 in the subnormal range; '
    'sound for finite non-overflowing values',
]
BOUNDS = {
    'quick': {'num_bits': [4, 8, 16], 'symmetric': [True, False],
                   'element_laws': 'one symbolic element per law',
                   'broadcast_law': 'ranks 1..3, dims<=2, every quantized '
                                    'dimension',
              'solver_timeout_s': 300},
    'thorough': {'num_bits': [4, 8, 16], 'symmetric': [True, False],
                 'element_laws': 'one symbolic element per law',
                 'broadcast_law': 'ranks 1..4, dims<=3, every quantized '
                                  'dimension',
                 'solver_timeout_s': 600},
}
F32 = z3.Float32()
NP_MODS = [
    'ai_edge_quantizer.qtyping',
    'ai_edge_quantizer.algorithms.uniform_quantize.uniform_quantize_tensor',
]


def _fp(v):
  return z3.FPVal(v, F32)


def _finite(t):
  return z3.Not(z3.Or(z3.fpIsNaN(t), z3.fpIsInf(t)))


def _qrange(nb, sym):
  qmin, qmax = -(2 ** (nb - 1)), 2 ** (nb - 1) - 1
  return (qmin + 1 if sym else qmin), qmax


def _int_term(arr, i=0):
  """Element i of an integer array as a z3 Int/BV term (sign-extended to 32)."""
  x = arr.el[i] if isinstance(arr, SymArray) else np.asarray(arr).reshape(-1)[i]
  dt = arr.dtype
  if B.is_conc(x):
    return z3.BitVecVal(int(x), 32)
  w = dt.itemsize * 8
  if w == 32:
    return x
  if w > 32:
    raise B.Unsupported('wide int')
  return z3.SignExt(32 - w, x) if dt.kind == 'i' else z3.ZeroExt(32 - w, x)


def _lib_params(e, nb, sym, shape=(1,), assume_scale_finite=False):
  """Symbolic finite float32 min<=max -> the library's own (zp, scale)."""
  mn = SymArray.fresh('min', shape, np.float32)
  mx = SymArray.fresh('max', shape, np.float32)
  for a, b in zip(mn.el, mx.el):
    e.assume(z3.And(_finite(a), _finite(b), z3.fpLEQ(a, b)))
  with patch.symbolic_numpy(NP_MODS):
    zp, sc = uqt.tensor_zp_scale_from_min_max(mn, mx, nb, sym)
  if assume_scale_finite:
    for s in SymArray.terms(sc) if isinstance(sc, SymArray) else []:
      e.assume(_finite(s))
  return mn, mx, zp, sc


def _as_sym(a):
  return a if isinstance(a, SymArray) else SymArray.from_numpy(a)


# ---------------------------------------------------------------------------
# BITS harnesses
# ---------------------------------------------------------------------------
def h_params(nb, sym):
  def h(e):
    be = symnp.set_backend(B.Bits())
    be.reset()
    mn, mx, zp, sc = _lib_params(e, nb, sym)
    e.reach('params')
    s = _as_sym(sc).terms()[0]
    e.check('C17.params.scale_positive', z3.fpGT(s, _fp(0)))
    # the region where max(max,0)-min(min,0) overflows float32 is a recorded
    # known finding; it is split off so that it cannot mask any other witness.
    zero = _fp(0)
    bmax = z3.If(z3.fpGEQ(mx.el[0], zero), mx.el[0], zero)
    bmin = z3.If(z3.fpLEQ(mn.el[0], zero), mn.el[0], zero)
    ovf_region = z3.fpIsInf(z3.fpSub(B.RNE, bmax, bmin))
    e.check('C17.params.scale_finite',
            z3.Implies(z3.Not(ovf_region), _finite(s)))
    e.check('C17.params.scale_finite[range>FLT_MAX]',
            z3.Implies(ovf_region, _finite(s)))
    e.check('C17.params.scale_dtype_f32', _as_sym(sc).dtype == np.float32)
    qmin, qmax = -(2 ** (nb - 1)), 2 ** (nb - 1) - 1
    z = _int_term(_as_sym(zp))
    if sym:
      e.check('C17.params.zp_zero_when_symmetric', z == 0)
    # zero point range: decided in RERR for every width (h_params_rerr); in
    # BITS (incl. the float32-overflow region RERR excludes) where the
    # division finishes: <= 8 bits.
    if sym or nb <= 8:
      e.check('C17.params.zp_in_range', z3.And(z >= qmin, z <= qmax))
      for ob in be.side:
        e.check('C17.params.zp_cast_in_range', ob.cond)
    else:
      ovf = z3.fpIsInf(s)
      e.check('C17.params.zp_in_range[overflow region]',
              z3.Implies(ovf, z3.And(z >= qmin, z <= qmax)))
    want = np.int8 if nb <= 8 else np.int16
    e.check('C17.params.zp_dtype', _as_sym(zp).dtype == want)
  return h


def h_zero(nb, sym):
  def h(e):
    be = symnp.set_backend(B.Bits())
    be.reset()
    mn, mx, zp, sc = _lib_params(e, nb, sym, assume_scale_finite=True)
    p = qtyping.UniformQuantParams(num_bits=nb, quantized_dimension=None,
                                   scale=sc, zero_point=zp, symmetric=sym)
    with patch.symbolic_numpy(NP_MODS):
      d = uqt.uniform_dequantize(_as_sym(zp), p)
    e.reach('zero')
    t = _as_sym(d).terms()[0]
    e.check('C17.zero_exactly_representable', z3.fpIsZero(t))
  return h



def _saturation_checks(e, x, sc, zp, q, lo, hi):
  """Out-of-range values saturate at the end of the range they lie beyond:
  with v = x * (1/scale) + zp evaluated in float32 as the specification
  clip(round(x / scale + zp)) prescribes, v >= hi + 1 gives hi and
  v <= lo - 1 gives lo."""
  v = (_as_sym(x) * (1.0 / _as_sym(sc))) + _as_sym(zp)
  t = v.terms()[0]
  z = _int_term(q)
  e.check('C17.quantize.saturates_at_the_correct_end',
          z3.And(z3.Implies(z3.fpGEQ(t, _fp(float(hi + 1))), z == hi),
                 z3.Implies(z3.fpLEQ(t, _fp(float(lo - 1))), z == lo)))


def h_qrange(nb, sym):
  def h(e):
    be = symnp.set_backend(B.Bits())
    be.reset()
    mn, mx, zp, sc = _lib_params(e, nb, sym)
    x = SymArray.fresh('x', (1,), np.float32)
    e.assume(_finite(x.el[0]))
    p = qtyping.UniformQuantParams(num_bits=nb, quantized_dimension=None,
                                   scale=sc, zero_point=zp, symmetric=sym)
    n_side = len(be.side)
    with patch.symbolic_numpy(NP_MODS):
      q = uqt.uniform_quantize(x, p)
    e.reach('qrange')
    lo, hi = _qrange(nb, sym)
    z = _int_term(q)
    e.check('C17.quantize.in_range', z3.And(z >= lo, z <= hi))
    want = np.int8 if nb <= 8 else np.int16
    e.check('C17.quantize.dtype', q.dtype == want)
    side = list(be.side[n_side:])
    _saturation_checks(e, x, sc, zp, q, lo, hi)
    for ob in side:
      e.check('C17.quantize.cast_in_range', ob.cond)
  return h


def h_deq_int(nb, sym):
  """dequantize == float32((q - zp) in exact integers) * scale.

  The integer part of quantize(dequantize(q)) == q: `q - zp` is evaluated by
  the library in the operands' own dtypes (int8/int16 as produced by the
  library); any wrap-around shows as a difference from the wide reference.
  """
  def h(e):
    be = symnp.set_backend(B.Bits())
    be.reset()
    mn, mx, zp, sc = _lib_params(e, nb, sym, assume_scale_finite=True)
    dt = np.int8 if nb <= 8 else np.int16
    q = SymArray.fresh('q', (1,), dt)
    lo, hi = _qrange(nb, sym)
    zq = _int_term(q)
    e.assume(z3.And(zq >= lo, zq <= hi))
    p = qtyping.UniformQuantParams(num_bits=nb, quantized_dimension=None,
                                   scale=sc, zero_point=zp, symmetric=sym)
    with patch.symbolic_numpy(NP_MODS):
      d = uqt.uniform_dequantize(q, p)
    e.reach('deq_int')
    t = _as_sym(d).terms()[0]
    s = _as_sym(sc).terms()[0]
    diff = zq - _int_term(_as_sym(zp))
    ref = z3.fpMul(B.RNE, z3.fpSignedToFP(B.RNE, diff, F32), s)
    e.check('C17.dequantize.no_integer_wraparound', z3.fpEQ(t, ref))
    e.check('C17.dequantize.dtype', _as_sym(d).dtype == np.float32)
  return h


def h_monotone_bits(nb, sym):
  def h(e):
    be = symnp.set_backend(B.Bits())
    be.reset()
    mn, mx, zp, sc = _lib_params(e, nb, sym)
    x = SymArray.fresh('x', (2,), np.float32)
    e.assume(z3.And(_finite(x.el[0]), _finite(x.el[1]),
                    z3.fpLEQ(x.el[0], x.el[1])))
    p = qtyping.UniformQuantParams(num_bits=nb, quantized_dimension=None,
                                   scale=sc, zero_point=zp, symmetric=sym)
    with patch.symbolic_numpy(NP_MODS):
      q = uqt.uniform_quantize(x, p)
    e.reach('monotone')
    e.check('C17.quantize.monotone', _int_term(q, 0) <= _int_term(q, 1))
  return h



# ---------------------------------------------------------------------------
# assume-guarantee: laws of quantize/dequantize for *any* parameters within
# the guarantee G that Lemma P (h_params / h_params_rerr) proves of the
# library's own parameters:  scale float32 shape (1,), positive, >= 2^-30,
# zero point of the library's dtype (int8 for <=8 bits, int16 for 16), in
# range, 0 when symmetric.
# ---------------------------------------------------------------------------
SCALE_MIN = 2.0 ** -30


def _g_params_bits(e, nb, sym, allow_inf=True):
  sc = SymArray.fresh('scale', (1,), np.float32)
  s = sc.el[0]
  e.assume(z3.And(z3.Not(z3.fpIsNaN(s)), z3.fpGEQ(s, _fp(SCALE_MIN))))
  if not allow_inf:
    e.assume(z3.Not(z3.fpIsInf(s)))
  dt = np.int8 if nb <= 8 else np.int16
  if sym:
    zp = np.zeros((1,), dtype=dt)
  else:
    zp = SymArray.fresh('zp', (1,), dt)
    qmin, qmax = -(2 ** (nb - 1)), 2 ** (nb - 1) - 1
    z = _int_term(zp)
    e.assume(z3.And(z >= qmin, z <= qmax))
  return zp, sc


def h_qrange_g(nb, sym):
  def h(e):
    be = symnp.set_backend(B.Bits())
    be.reset()
    zp, sc = _g_params_bits(e, nb, sym)
    x = SymArray.fresh('x', (1,), np.float32)
    e.assume(_finite(x.el[0]))
    p = qtyping.UniformQuantParams(num_bits=nb, quantized_dimension=None,
                                   scale=sc, zero_point=zp, symmetric=sym)
    with patch.symbolic_numpy(NP_MODS):
      q = uqt.uniform_quantize(x, p)
    e.witness('qrange', True)
    lo, hi = _qrange(nb, sym)
    z = _int_term(q)
    e.check('C17.quantize.in_range', z3.And(z >= lo, z <= hi))
    want = np.int8 if nb <= 8 else np.int16
    e.check('C17.quantize.dtype', q.dtype == want)
    side = list(be.side)
    _saturation_checks(e, x, sc, zp, q, lo, hi)
    for ob in side:
      e.check('C17.quantize.cast_in_range', ob.cond)
  return h


def _mul_operands(t):
  """If t is fp.mul(rm, X, S) returns (X, S)."""
  if z3.is_app(t) and t.decl().kind() == z3.Z3_OP_FPA_MUL:
    return t.arg(1), t.arg(2)
  return None


def h_deq_int_g(nb, sym):
  def h(e):
    be = symnp.set_backend(B.Bits())
    be.reset()
    zp, sc = _g_params_bits(e, nb, sym, allow_inf=False)
    dt = np.int8 if nb <= 8 else np.int16
    q = SymArray.fresh('q', (1,), dt)
    lo, hi = _qrange(nb, sym)
    zq = _int_term(q)
    e.assume(z3.And(zq >= lo, zq <= hi))
    p = qtyping.UniformQuantParams(num_bits=nb, quantized_dimension=None,
                                   scale=sc, zero_point=zp, symmetric=sym)
    with patch.symbolic_numpy(NP_MODS):
      d = uqt.uniform_dequantize(q, p)
    e.witness('deq_int', True)
    t = _as_sym(d).terms()[0]
    s = _as_sym(sc).terms()[0]
    diff = zq - _int_term(_as_sym(zp))
    e.check('C17.dequantize.dtype', _as_sym(d).dtype.kind == 'f')
    srt = t.sort()
    wide = z3.fpSignedToFP(B.RNE, diff, srt)
    s_r = s if srt == F32 else z3.fpFPToFP(B.RNE, s, srt)
    ops = _mul_operands(t)
    if ops is not None and (ops[1].eq(s_r) or ops[0].eq(s_r)):
      x = ops[0] if ops[1].eq(s_r) else ops[1]
      # the encoding is fp.mul(RNE, X, scale): deciding X == float(q - zp)
      # decides the whole equality (same multiplication on both sides).
      e.check('C17.dequantize.no_integer_wraparound', z3.fpEQ(x, wide))
    else:
      ref = z3.fpMul(B.RNE, wide, s_r)
      e.check('C17.dequantize.no_integer_wraparound', z3.fpEQ(t, ref))
  return h


# ---------------------------------------------------------------------------
# RERR harnesses (real arithmetic + rounding-error model)
# ---------------------------------------------------------------------------
U24 = z3.Q(1, 2 ** 24)
FM32 = B.RErr.FMAX[np.dtype('float32')]


def _rerr_lib_params(e, be, nb, sym):
  mn = SymArray.fresh('min', (1,), np.float32)
  mx = SymArray.fresh('max', (1,), np.float32)
  a, b = mn.el[0], mx.el[0]
  e.assume(z3.And(a <= b, a >= -FM32, b <= FM32))
  with patch.symbolic_numpy(NP_MODS):
    zp, sc = uqt.tensor_zp_scale_from_min_max(mn, mx, nb, sym)
  # Sound only without float32 overflow: the overflowing region (max-min >
  # FLT_MAX) is decided in BITS (C17.params.scale_finite).
  for ob in be.side:
    if ob.what.startswith('overflow'):
      e.assume(ob.cond, check=False)
  return mn, mx, zp, sc


def _zint(zp, i=0):
  if isinstance(zp, SymArray):
    x = zp.el[i]
    return z3.IntVal(int(x)) if B.is_conc(x) else x
  return z3.IntVal(int(np.asarray(zp).reshape(-1)[i]))


def _slack(nb, c=8):
  """c * (qmax-qmin) * u: float32 rounding of the specified formula, in units
  of one quantization step."""
  return z3.Q(c * (2 ** nb), 2 ** 24)


def h_params_rerr(nb, sym):
  def h(e):
    be = symnp.set_backend(B.RErr())
    be.reset()
    mn, mx, zp, sc = _rerr_lib_params(e, be, nb, sym)
    qmin, qmax = -(2 ** (nb - 1)), 2 ** (nb - 1) - 1
    z = _zint(zp)
    s = _as_sym(sc).el[0]
    e.witness('params_rerr', True)
    e.witness('params_rerr_zp_hi', z == qmax, optional=True) if not sym else None
    e.check('C17.params.zp_in_range', z3.And(z >= qmin, z <= qmax))
    for ob in be.side:
      if not ob.what.startswith('overflow'):
        e.check('C17.params.zp_cast_in_range', ob.cond)
    e.check('C17.params.scale_positive', s > 0)
    e.check('C17.params.scale_lower_bound', s >= z3.Q(1, 2 ** 30))
    if sym:
      e.check('C17.params.zp_zero_when_symmetric', z == 0)
  return h


def h_coverage(nb, sym):
  def h(e):
    be = symnp.set_backend(B.RErr())
    be.reset()
    mn, mx, zp, sc = _rerr_lib_params(e, be, nb, sym)
    lo, hi = _qrange(nb, sym)
    dt = np.int8 if nb <= 8 else np.int16
    p = qtyping.UniformQuantParams(num_bits=nb, quantized_dimension=None,
                                   scale=sc, zero_point=zp, symmetric=sym)
    n0 = len(be.side)
    with patch.symbolic_numpy(NP_MODS):
      dlo = uqt.uniform_dequantize(SymArray.from_numpy(np.array([lo], dt)), p)
      dhi = uqt.uniform_dequantize(SymArray.from_numpy(np.array([hi], dt)), p)
    for ob in be.side[n0:]:
      if ob.what.startswith('overflow'):
        e.assume(ob.cond, check=False)
    s = _as_sym(sc).el[0]
    e.witness('coverage', True)
    tol = s / 2 + s * _slack(nb)
    e.check('C17.coverage.low_end', dlo.el[0] <= mn.el[0] + tol, tactic=NRA)
    e.check('C17.coverage.high_end', dhi.el[0] >= mx.el[0] - tol, tactic=NRA)
    # vacuity twin: the same statement with a quarter step must be refutable
    e.witness('coverage_tight_refutable',
              z3.Not(dlo.el[0] <= mn.el[0] + s / 4), optional=True)
  return h


def h_roundtrip_x(nb, sym):
  def h(e):
    be = symnp.set_backend(B.RErr())
    be.reset()
    mn, mx, zp, sc = _rerr_lib_params(e, be, nb, sym)
    x = SymArray.fresh('x', (1,), np.float32)
    e.assume(z3.And(x.el[0] >= mn.el[0], x.el[0] <= mx.el[0]))
    p = qtyping.UniformQuantParams(num_bits=nb, quantized_dimension=None,
                                   scale=sc, zero_point=zp, symmetric=sym)
    n0 = len(be.side)
    with patch.symbolic_numpy(NP_MODS):
      q = uqt.uniform_quantize(x, p)
      d = uqt.uniform_dequantize(q, p)
    for ob in be.side[n0:]:
      if ob.what.startswith('overflow'):
        e.assume(ob.cond, check=False)
    s = _as_sym(sc).el[0]
    e.witness('roundtrip_x', True)
    err = d.el[0] - x.el[0]
    tol = s / 2 + s * _slack(nb)
    e.check('C17.roundtrip.dequantize_quantize_within_half_step',
            z3.And(err <= tol, -err <= tol))
    e.witness('roundtrip_x_quarter_refutable',
              z3.Not(z3.And(err <= s / 4, -err <= s / 4)), optional=True)
  return h


NRA = ['qfnra-nlsat', None]


def _lemma_c(nb, sym, s, z, mn, mx, c=4):
  """Range-coverage lemma in exact real form (proved by h_cov_exact for the
  library's parameters, assumed by h_roundtrip_x_g for arbitrary ones)."""
  lo, hi = _qrange(nb, sym)
  d = s * _slack(nb, c)
  return z3.And((lo - z) * s - s / 2 - d <= mn, (hi - z) * s + s / 2 + d >= mx)


def h_cov_exact(nb, sym):
  def h(e):
    be = symnp.set_backend(B.RErr())
    be.reset()
    mn, mx, zp, sc = _rerr_lib_params(e, be, nb, sym)
    s = _as_sym(sc).el[0]
    e.witness('cov_exact', True)
    e.check('C17.coverage.lemma_exact_form',
            _lemma_c(nb, sym, s, _zint(zp), mn.el[0], mx.el[0]), tactic=NRA)
  return h


def h_roundtrip_x_g(nb, sym):
  """Arbitrary parameters within the proven guarantees (Lemma P + Lemma C)."""
  def h(e):
    be = symnp.set_backend(B.RErr())
    be.reset()
    qmin, qmax = -(2 ** (nb - 1)), 2 ** (nb - 1) - 1
    dt = np.int8 if nb <= 8 else np.int16
    sc = SymArray.fresh('scale', (1,), np.float32)
    s = sc.el[0]
    e.assume(z3.And(s >= z3.Q(1, 2 ** 30), s <= FM32))
    if sym:
      zp = np.zeros((1,), dt)
    else:
      zp = SymArray.fresh('zp', (1,), dt)
      e.assume(z3.And(zp.el[0] >= qmin, zp.el[0] <= qmax))
    mn = z3.Real('min_0')
    mx = z3.Real('max_0')
    e.register_input('min_0', mn)
    e.register_input('max_0', mx)
    x = SymArray.fresh('x', (1,), np.float32)
    e.assume(z3.And(mn <= mx, x.el[0] >= mn, x.el[0] <= mx, mn >= -FM32,
                    mx <= FM32))
    e.assume(_lemma_c(nb, sym, s, _zint(zp), mn, mx))
    p = qtyping.UniformQuantParams(num_bits=nb, quantized_dimension=None,
                                   scale=sc, zero_point=zp, symmetric=sym)
    with patch.symbolic_numpy(NP_MODS):
      q = uqt.uniform_quantize(x, p)
      d = uqt.uniform_dequantize(q, p)
    for ob in be.side:
      if ob.what.startswith('overflow'):
        e.assume(ob.cond, check=False)
    e.witness('roundtrip_x_g', True)
    err = d.el[0] - x.el[0]
    tol = s / 2 + s * _slack(nb, 8)
    e.check('C17.roundtrip.dequantize_quantize_within_half_step',
            z3.And(err <= tol, -err <= tol), tactic=[None, 'qfnra-nlsat'])
    e.witness('roundtrip_x_quarter_refutable',
              z3.Not(z3.And(err <= s / 4, -err <= s / 4)), optional=True)
  return h


def h_roundtrip_code(nb, sym):
  """quantize(dequantize(q)) == q, float part (integers exact here; the
  integer part is C17.dequantize.no_integer_wraparound in BITS)."""
  def h(e):
    be = symnp.set_backend(B.RErr())
    be.reset()
    mn, mx, zp, sc = _rerr_lib_params(e, be, nb, sym)
    dt = np.int8 if nb <= 8 else np.int16
    q = SymArray.fresh('q', (1,), dt)
    lo, hi = _qrange(nb, sym)
    e.assume(z3.And(q.el[0] >= lo, q.el[0] <= hi))
    p = qtyping.UniformQuantParams(num_bits=nb, quantized_dimension=None,
                                   scale=sc, zero_point=zp, symmetric=sym)
    n0 = len(be.side)
    with patch.symbolic_numpy(NP_MODS):
      d = uqt.uniform_dequantize(q, p)
      n_r = len(be.rints)
      q2 = uqt.uniform_quantize(d, p)
    for ob in be.side[n0:]:
      if ob.what.startswith('overflow'):
        e.assume(ob.cond, check=False)
    e.witness('roundtrip_code', True)
    # lemma 1: the value handed to rint is within 1/4 of q
    pre = be.rints[n_r][0]
    ok1 = e.check('C17.roundtrip.code.pre_rint_within_quarter',
                  z3.And(pre - q.el[0] <= z3.Q(1, 4), q.el[0] - pre <= z3.Q(1, 4)),
                  tactic=[None, 'qfnra-nlsat'])
    if not ok1:
      return  # lemma 1 refuted or undecided: already reported
    # lemma 2 (linear): |pre - q| <= 1/4, |r - pre| <= 1/2, r integer => r == q;
    # q in range so the clip is the identity.
    lemma1 = z3.And(pre - q.el[0] <= z3.Q(1, 4), q.el[0] - pre <= z3.Q(1, 4))
    rr = be.rints[n_r][1]
    facts = [z3.And(rr - pre <= z3.Q(1, 2), pre - rr <= z3.Q(1, 2)),
             z3.And(q.el[0] >= lo, q.el[0] <= hi), lemma1]
    e.check('C17.roundtrip.code.quantize_dequantize_identity',
            q2.el[0] == q.el[0], only_facts=facts)
  return h


def h_monotone(nb, sym):
  """Monotone for arbitrary parameters within the guarantee G (Lemma P)."""
  def h(e):
    be = symnp.set_backend(B.RErr())
    be.reset()
    qmin, qmax = -(2 ** (nb - 1)), 2 ** (nb - 1) - 1
    dt = np.int8 if nb <= 8 else np.int16
    sc = SymArray.fresh('scale', (1,), np.float32)
    s = sc.el[0]
    e.assume(z3.And(s >= z3.Q(1, 2 ** 30), s <= FM32))
    if sym:
      zp = np.zeros((1,), dt)
    else:
      zp = SymArray.fresh('zp', (1,), dt)
      e.assume(z3.And(zp.el[0] >= qmin, zp.el[0] <= qmax))
    x = SymArray.fresh('x', (2,), np.float32)
    e.assume(z3.And(x.el[0] <= x.el[1], x.el[0] >= -FM32, x.el[1] <= FM32))
    p = qtyping.UniformQuantParams(num_bits=nb, quantized_dimension=None,
                                   scale=sc, zero_point=zp, symmetric=sym)
    with patch.symbolic_numpy(NP_MODS):
      q = uqt.uniform_quantize(x, p)
    for ob in be.side:
      if ob.what.startswith('overflow'):
        e.assume(ob.cond, check=False)
    e.witness('monotone', True)
    e.witness('monotone_strict', q.el[0] < q.el[1], optional=True)
    e._add(be.monotone_axioms())
    e.check('C17.quantize.monotone', q.el[0] <= q.el[1],
            tactic=[None, 'qfnra-nlsat'])
  return h


# ---------------------------------------------------------------------------
def h_per_channel(shape, qd, nb, sym, flat_params=True):
  """flat_params: scale/zp flattened to (channels,) as stored in a flatbuffer
  (quantized_dimension 0 for per-tensor, as the interpreter reports it), which
  exercises fix_quantization_params_rank; otherwise keepdims-shaped as
  produced by the library's own min/max reduction."""
  per_tensor = qd is None
  def h(e):
    nonlocal qd
    be = symnp.set_backend(B.Bits())
    be.reset()
    rank = len(shape)
    nch = shape[qd] if not per_tensor else 1
    if per_tensor and flat_params and rank:
      qd = 0
    dt = np.int8 if nb <= 8 else np.int16
    sc = SymArray.fresh('scale', (nch,), np.float32)
    for s in sc.el:
      e.assume(z3.And(z3.Not(z3.fpIsNaN(s)), z3.Not(z3.fpIsInf(s)),
                      z3.fpGEQ(s, _fp(SCALE_MIN))))
    if sym:
      zp = SymArray.from_numpy(np.zeros((nch,), dt))
    else:
      zp = SymArray.fresh('zp', (nch,), dt)
      qmin, qmax = -(2 ** (nb - 1)), 2 ** (nb - 1) - 1
      for i in range(nch):
        z = _int_term(zp, i)
        e.assume(z3.And(z >= qmin, z <= qmax))
    x = SymArray.fresh('x', shape, np.float32)
    for t in x.el:
      e.assume(_finite(t))
    if flat_params or not rank:
      psc, pzp = sc, zp
    else:
      kshape = tuple(shape[i] if (not per_tensor and i == qd) else 1
                     for i in range(rank))
      psc, pzp = sc.reshape(kshape), zp.reshape(kshape)
    p = qtyping.UniformQuantParams(num_bits=nb, quantized_dimension=qd,
                                   scale=psc, zero_point=pzp, symmetric=sym)
    with patch.symbolic_numpy(NP_MODS):
      q = uqt.uniform_quantize(x, p)
    e.witness('per_channel', True)
    e.check('C17.per_channel.shape', q.shape == tuple(shape))
    idxs = list(np.ndindex(*shape)) if rank else [()]
    for flat, idx in enumerate(idxs):
      c = idx[qd] if not per_tensor else 0
      one = (1,) * rank
      p1 = qtyping.UniformQuantParams(
          num_bits=nb, quantized_dimension=None,
          scale=SymArray(one, np.float32, [sc.el[c]]),
          zero_point=SymArray(one, dt, [zp.el[c]]), symmetric=sym)
      with patch.symbolic_numpy(NP_MODS):
        r = uqt.uniform_quantize(SymArray(one, np.float32, [x.el[flat]]), p1)
      a, b = q.terms()[flat], r.terms()[0]
      e.check('C17.per_channel.quantize_uses_own_channel_only', a == b)
    with patch.symbolic_numpy(NP_MODS):
      d = uqt.uniform_dequantize(q, p)
    for flat, idx in enumerate(idxs):
      c = idx[qd] if not per_tensor else 0
      one = (1,) * rank
      p1 = qtyping.UniformQuantParams(
          num_bits=nb, quantized_dimension=None,
          scale=SymArray(one, np.float32, [sc.el[c]]),
          zero_point=SymArray(one, dt, [zp.el[c]]), symmetric=sym)
      with patch.symbolic_numpy(NP_MODS):
        r = uqt.uniform_dequantize(SymArray(one, q.dtype, [q.el[flat]]), p1)
      a, b = d.terms()[flat], r.terms()[0]
      e.check('C17.per_channel.dequantize_uses_own_channel_only',
              z3.Or(a == b, z3.And(z3.fpIsNaN(a), z3.fpIsNaN(b))))
  return h


def job_per_channel(job):
  a = job.args
  h = h_per_channel(tuple(a['shape']), a['qd'], a['nb'], a['sym'], a['flat'])
  tag = (f"per_channel/{a['nb']}/{a['sym']}/{list(a['shape'])}/{a['qd']}/"
         f"{a['flat']}")
  engines = _run(job, h, a['timeout'], tag, oneshot=False)
  r = result_from_engines(job.name, engines, _to_candidate)
  r.samples = [f"per-channel law shape={a['shape']} quantized_dimension="
               f"{a['qd']} num_bits={a['nb']} symmetric={a['sym']}"]
  return r


# ---------------------------------------------------------------------------
# bias
# ---------------------------------------------------------------------------
def h_bias(n, nb_in, per_channel):
  def h(e):
    be = symnp.set_backend(B.Bits())
    be.reset()
    nw = n if per_channel else 1
    isc = SymArray.fresh('in_scale', (1,), np.float32)
    wsc = SymArray.fresh('w_scale', (nw,), np.float32)
    for s in isc.el + wsc.el:
      e.assume(z3.And(z3.Not(z3.fpIsNaN(s)), z3.Not(z3.fpIsInf(s)),
                      z3.fpGEQ(s, _fp(SCALE_MIN))))
    b = SymArray.fresh('bias', (n,), np.float32)
    for t in b.el:
      e.assume(_finite(t))
    dt_in = np.int8 if nb_in <= 8 else np.int16
    pin = qtyping.UniformQuantParams(
        num_bits=nb_in, quantized_dimension=None, scale=isc,
        zero_point=np.zeros((1,), dt_in), symmetric=nb_in == 16)
    pw = qtyping.UniformQuantParams(
        num_bits=8, quantized_dimension=0 if per_channel else None, scale=wsc,
        zero_point=np.zeros((nw,), np.int8), symmetric=True)
    with patch.symbolic_numpy(NP_MODS):
      r = uqt.symmetric_quantize_bias_tensor(b, pin, pw)
    e.witness('bias', True)
    bits = 64 if nb_in == 16 else 32
    e.check('C17.bias.num_bits', r.num_bits == bits)
    e.check('C17.bias.symmetric', r.symmetric is True)
    zpc = np.asarray(r.zero_point) if not isinstance(
        r.zero_point, SymArray) else None
    e.check('C17.bias.zero_point_zero',
            zpc is not None and bool(np.all(zpc == 0))
            and zpc.shape == (nw,))
    e.check('C17.bias.quantized_dimension',
            r.quantized_dimension == (None if nw == 1 else 0))
    st = _as_sym(r.scale)
    e.check('C17.bias.scale_shape_dtype',
            st.shape == (nw,) and st.dtype == np.float32)
    for c in range(nw):
      ref = z3.fpMul(B.RNE, isc.el[0], wsc.el[c])
      e.check('C17.bias.scale_is_input_times_weight_scale',
              z3.fpEQ(st.terms()[c], ref))
    qd = r.quantized_data
    want = np.int64 if bits == 64 else np.int32
    e.check('C17.bias.data_dtype_shape',
            qd.dtype == want and qd.shape == (n,))
    # "saturation only at the type's edge": the stored integer never has the
    # opposite sign of the bias (a positive bias that saturates must stay at
    # the positive edge), and every float->int cast is in range.
    zero = z3.BitVecVal(0, bits)
    for i in range(n):
      t = qd.terms()[i]
      bpos = z3.fpGT(b.el[i], _fp(0))
      bneg = z3.fpLT(b.el[i], _fp(0))
      e.check('C17.bias.sign_preserved',
              z3.And(z3.Implies(bpos, t >= zero), z3.Implies(bneg, t <= zero)))
    for ob in be.side:
      e.check('C17.bias.cast_in_range', ob.cond)
  return h


def job_bias(job):
  a = job.args
  h = h_bias(a['n'], a['nb_in'], a['per_channel'])
  tag = f"bias/{a['nb_in']}/{a['per_channel']}/{a['n']}"
  engines = _run(job, h, a['timeout'], tag, oneshot=True)
  r = result_from_engines(job.name, engines, _to_candidate)
  r.samples = [f"bias law n={a['n']} activation_bits={a['nb_in']} "
               f"per_channel_weights={a['per_channel']}"]
  return r


def _run(job, harness, timeout_s, tag, oneshot=True, logic=None):
  en = Engine(solver_timeout_ms=int(timeout_s * 1000), oneshot_checks=oneshot,
              logic=logic)
  en.explore(harness)
  return [(tag, en)]


def _to_candidate(tag, v):
  data = {k: z3val_to_py(x) for k, x in v.model_values.items()}
  data['tag'] = tag
  return Candidate(v.name, data)


def job_bits(job):
  a = job.args
  h = {'params': h_params, 'zero': h_zero, 'qrange': h_qrange_g,
       'deq_int': h_deq_int_g, 'params_rerr': h_params_rerr,
       'coverage': h_coverage, 'roundtrip_x': h_roundtrip_x_g,
       'cov_exact': h_cov_exact,
       'roundtrip_code': h_roundtrip_code, 'monotone': h_monotone,
       }[a['kind']](a['nb'], a['sym'])
  engines = _run(job, h, a['timeout'], f"{a['kind']}/{a['nb']}/{a['sym']}",
                 oneshot=a['kind'] in ('params', 'zero', 'qrange', 'deq_int'))
  r = result_from_engines(job.name, engines, _to_candidate)
  r.samples = [f"{a['kind']} num_bits={a['nb']} symmetric={a['sym']}: "
               f"{r.stats['obligations']} obligations over all finite float32 "
               'min<=max']
  return r


REACH = {'bits': []}


def jobs(tier, seed):
  to = BOUNDS[tier]['solver_timeout_s']
  js = []
  for kind in ('params', 'zero', 'qrange', 'deq_int', 'params_rerr',
               'coverage', 'cov_exact', 'roundtrip_x', 'roundtrip_code',
               'monotone'):
    for nb, sym in itertools.product((4, 8, 16), (True, False)):
      js.append(Job(f'bits:{kind}:{nb}:{"sym" if sym else "asym"}', job_bits,
                    {'kind': kind, 'nb': nb, 'sym': sym, 'timeout': to}))
  shapes = [(2,), (2, 2), (1, 2), (2, 1, 2)] if tier == 'quick' else [
      (3,), (2, 3), (3, 2), (2, 1, 2), (2, 2, 2), (1, 2, 1, 2)]
  for shp in shapes:
    for qd in [None] + list(range(len(shp))):
      for nb, sym in ((8, True), (8, False), (4, True)) if tier == 'quick' \
          else itertools.product((4, 8, 16), (True, False)):
        for flat in (True, False):
          js.append(Job(
              f'pc:{list(shp)}:{qd}:{nb}:{"sym" if sym else "asym"}:'
              f'{"flat" if flat else "keepdims"}', job_per_channel,
              {'shape': list(shp), 'qd': qd, 'nb': nb, 'sym': sym,
               'flat': flat, 'timeout': to}))
  for n, nb_in, pc in itertools.product((1, 2), (8, 16), (False, True)):
    js.append(Job(f'bias:{n}:{nb_in}:{pc}', job_bias,
                  {'n': n, 'nb_in': nb_in, 'per_channel': pc, 'timeout': to}))
  return js


# ---------------------------------------------------------------------------
# replay on the real code with real NumPy (no patching active here)
# ---------------------------------------------------------------------------
def _num(v):
  """Model value -> Python float (float32-rounded for reals)."""
  import fractions
  if isinstance(v, dict):
    return float(np.float32(fpbits_to_float(v)))
  if isinstance(v, (int, float)):
    return v
  if isinstance(v, str):
    try:
      return float(np.float32(float(fractions.Fraction(v))))
    except ValueError:
      return float(np.float32(float(v.rstrip('?'))))
  raise ValueError(v)


def _f(data, name):
  v = data.get(name)
  if v is None:
    v = data.get(name + '_0')
  return np.float32(_num(v))


def _signed_int(v, w):
  v = int(v)
  return v - 2 ** w if v >= 2 ** (w - 1) else v


def _params_from_model(d, nb, sym):
  """Parameters of an assume-guarantee harness (arbitrary within G)."""
  dt = np.int8 if nb <= 8 else np.int16
  w = 8 if nb <= 8 else 16
  sc = np.array([_f(d, 'scale')], np.float32)
  zp = np.array([0 if sym else _signed_int(d['zp_0'], w)], dt)
  return qtyping.UniformQuantParams(num_bits=nb, quantized_dimension=None,
                                    scale=sc, zero_point=zp, symmetric=sym)


def _lib_params_for_zp(nb, sym, z):
  """float32 min/max for which the library itself produces zero point z."""
  qmin, qmax = -(2 ** (nb - 1)), 2 ** (nb - 1) - 1
  if sym:
    mn, mx = np.float32(-1.0), np.float32(1.0)
  else:
    mn, mx = np.float32(-(z - qmin)), np.float32(qmax - z)
  zp, sc = uqt.tensor_zp_scale_from_min_max(
      np.array([mn], np.float32), np.array([mx], np.float32), nb, sym)
  return mn, mx, zp, sc


def _replay_g(c, d, ob, kind, nb, sym):
  lo, hi = _qrange(nb, sym)
  w = 8 if nb <= 8 else 16
  dt = np.int8 if nb <= 8 else np.int16
  if kind == 'qrange':
    p = _params_from_model(d, nb, sym)
    x = np.array([_f(d, 'x')], np.float32)
    q = uqt.uniform_quantize(x, p)
    bad = not (lo <= int(q[0]) <= hi)
    # specification: clip(round(x * (1/scale) + zp)) in float32, clipped in
    # exact integers
    v = np.float32(x[0] * (np.float32(1.0) / np.float32(p.scale[0]))) + \
        np.float32(int(p.zero_point[0]))
    if np.isfinite(v):
      ref = min(max(int(np.rint(np.float64(v))), lo), hi)
    else:
      ref = hi if v > 0 else lo
    if not np.isnan(v) and int(q[0]) != ref:
      return True, 'quantize-saturation', (
          f'num_bits={nb} symmetric={sym} scale={p.scale[0]!r} '
          f'zp={int(p.zero_point[0])} x={x[0]!r}: q={int(q[0])}, '
          f'clip(round(x/scale+zp))={ref}')
    return bad, 'quantize-range', (
        f'num_bits={nb} symmetric={sym} scale={p.scale[0]!r} '
        f'zp={int(p.zero_point[0])} x={x[0]!r}: q={int(q[0])}')
  if kind == 'deq_int':
    z = 0 if sym else _signed_int(d['zp_0'], w)
    qv = _signed_int(d['q_0'], w)
    mn, mx, zp, sc = _lib_params_for_zp(nb, sym, z)
    if int(zp[0]) != z:
      return None, 'no-lib-params', f'could not realise zp={z}'
    p = qtyping.UniformQuantParams(num_bits=nb, quantized_dimension=None,
                                   scale=sc, zero_point=zp, symmetric=sym)
    q = np.array([qv], dtype=dt)
    got = uqt.uniform_dequantize(q, p)
    ref = np.float64(qv - z) * np.float64(sc[0])
    bad = not np.isclose(float(got[0]), float(ref), rtol=1e-6, atol=0)
    narrow = q.dtype == zp.dtype and q.dtype.itemsize < 4
    wc = ('q - zp evaluated in the shared narrow integer dtype wraps around'
          if narrow and not (np.iinfo(dt).min <= qv - z <= np.iinfo(dt).max)
          else 'other')
    return bad, wc, (f'num_bits={nb} min={mn!r} max={mx!r} -> zp={z} '
                     f'({zp.dtype}) scale={sc[0]!r}; q={qv}: dequantize='
                     f'{got[0]!r}, exact (q-zp)*scale={ref!r}')
  return None, 'unhandled', ob


def _replay_bias(d, ob, tag):
  _, nb_in, pc, n = tag.split('/')
  nb_in, pc, n = int(nb_in), pc == 'True', int(n)
  nw = n if pc else 1
  isc = np.array([_f(d, 'in_scale_0')], np.float32)
  wsc = np.array([_f(d, f'w_scale_{i}') for i in range(nw)], np.float32)
  b = np.array([_f(d, f'bias_{i}') for i in range(n)], np.float32)
  pin = qtyping.UniformQuantParams(
      num_bits=nb_in, quantized_dimension=None, scale=isc,
      zero_point=np.zeros((1,), np.int8 if nb_in <= 8 else np.int16),
      symmetric=nb_in == 16)
  pw = qtyping.UniformQuantParams(
      num_bits=8, quantized_dimension=0 if pc else None, scale=wsc,
      zero_point=np.zeros((nw,), np.int8), symmetric=True)
  r = uqt.symmetric_quantize_bias_tensor(b, pin, pw)
  bits = 64 if nb_in == 16 else 32
  q = r.quantized_data
  exact = b.astype(np.float64) / (isc.astype(np.float64) * wsc.astype(np.float64))
  what = (f'activation_bits={nb_in} in_scale={isc!r} w_scale={wsc!r} '
          f'bias={b!r}: quantized={q!r} ({q.dtype}), bias/scale={exact!r}')
  if ob in ('C17.bias.sign_preserved', 'C17.bias.cast_in_range'):
    flips = [int(q[i]) != 0 and (int(q[i]) > 0) != (exact[i] > 0)
             for i in range(n)]
    bad = any(flips)
    imin = -(2 ** 63)
    wc = ('64-bit bias: a positive bias/scale that saturates is cast to '
          'INT64_MIN (the float64 clip bound 2^63-1 rounds up to 2^63)'
          if bits == 64 and all((not f) or (int(q[i]) == imin and b[i] > 0)
                                for i, f in enumerate(flips)) else 'other')
    return bad, wc, what
  if ob == 'C17.bias.scale_is_input_times_weight_scale':
    ref = (isc * wsc).astype(np.float32)
    return (not np.array_equal(np.asarray(r.scale), ref)), 'bias-scale', what
  return None, 'unhandled', ob


def _replay_pc(d, ob, tag):
  _, nb, sym, shape, qd, flat = tag.split('/')
  import ast
  nb, sym, shape = int(nb), sym == 'True', tuple(ast.literal_eval(shape))
  qd = None if qd == 'None' else int(qd)
  flat = flat == 'True'
  per_tensor = qd is None
  rank = len(shape)
  nch = shape[qd] if not per_tensor else 1
  if per_tensor and flat and rank:
    qd = 0
  dt = np.int8 if nb <= 8 else np.int16
  w = 8 if nb <= 8 else 16
  sc = np.array([_f(d, f'scale_{i}') for i in range(nch)], np.float32)
  zp = np.array([0 if sym else _signed_int(d[f'zp_{i}'], w)
                 for i in range(nch)], dt)
  n = int(np.prod(shape)) if rank else 1
  x = np.array([_f(d, f'x_{i}' if rank else 'x') for i in range(n)],
               np.float32).reshape(shape)
  if flat or not rank:
    psc, pzp = sc, zp
  else:
    ks = tuple(shape[i] if (not per_tensor and i == qd) else 1
               for i in range(rank))
    psc, pzp = sc.reshape(ks), zp.reshape(ks)
  p = qtyping.UniformQuantParams(num_bits=nb, quantized_dimension=qd,
                                 scale=psc, zero_point=pzp, symmetric=sym)
  q = uqt.uniform_quantize(x, p)
  dq = uqt.uniform_dequantize(q, p)
  bad = False
  for idx in (np.ndindex(*shape) if rank else [()]):
    c = idx[qd] if not per_tensor else 0
    one = (1,) * rank
    p1 = qtyping.UniformQuantParams(
        num_bits=nb, quantized_dimension=None, scale=sc[c].reshape(one),
        zero_point=zp[c].reshape(one), symmetric=sym)
    r = uqt.uniform_quantize(x[idx].reshape(one), p1)
    r2 = uqt.uniform_dequantize(q[idx].reshape(one), p1)
    if int(r.reshape(-1)[0]) != int(q[idx]):
      bad = True
    if not (float(r2.reshape(-1)[0]) == float(dq[idx])
            or (np.isnan(r2.reshape(-1)[0]) and np.isnan(dq[idx]))):
      bad = True
  return bad, 'per-channel', (f'shape={shape} qdim={qd} scale={sc!r} zp={zp!r} '
                             f'x={x!r}: q={q!r}')


def _replay_rerr(d, ob, kind, nb, sym):
  """RERR candidates are real-valued; round to float32 and re-run."""
  lo, hi = _qrange(nb, sym)
  dt = np.int8 if nb <= 8 else np.int16
  slack = 8 * (2 ** nb) / 2 ** 24
  if kind == 'monotone':
    p = _params_from_model(d, nb, sym)
    x = np.array([_f(d, 'x_0'), _f(d, 'x_1')], np.float32)
    if not (x[0] <= x[1] and float(p.scale[0]) >= 2.0 ** -30):
      return None, 'outside-guarantee', 'rounded model leaves the guarantee'
    q = uqt.uniform_quantize(x, p)
    return (int(q[0]) > int(q[1])), 'monotone', (
        f'scale={p.scale[0]!r} zp={int(p.zero_point[0])} x={x!r} q={q!r}')
  if kind == 'roundtrip_x':
    p = _params_from_model(d, nb, sym)
    mn, mx, x = _f(d, 'min'), _f(d, 'max'), _f(d, 'x')
    s = float(p.scale[0])
    z = int(p.zero_point[0])
    lemma = ((lo - z) * s - s / 2 - s * slack / 2 <= mn
             and (hi - z) * s + s / 2 + s * slack / 2 >= mx)
    if not (lemma and mn <= x <= mx and s >= 2.0 ** -30 and np.isfinite(s)
            and np.isfinite(x) and np.isfinite(mn) and np.isfinite(mx)):
      return None, 'outside-guarantee', 'rounded model leaves the guarantee'
    q = uqt.uniform_quantize(np.array([x], np.float32), p)
    dq = uqt.uniform_dequantize(q, p)
    err = abs(float(dq[0]) - float(x))
    return (err > s / 2 + s * slack), 'roundtrip', (
        f'scale={s!r} zp={z} x={x!r}: q={int(q[0])} deq={dq[0]!r} err={err!r}')
  mn = np.array([_f(d, 'min')], np.float32)
  mx = np.array([_f(d, 'max')], np.float32)
  if not mn[0] <= mx[0]:
    return None, 'outside-guarantee', 'rounded min > max'
  zp, sc = uqt.tensor_zp_scale_from_min_max(mn, mx, nb, sym)
  p = qtyping.UniformQuantParams(num_bits=nb, quantized_dimension=None,
                                 scale=sc, zero_point=zp, symmetric=sym)
  s = float(sc[0])
  what = f'num_bits={nb} symmetric={sym} min={mn[0]!r} max={mx[0]!r}'
  if not np.isfinite(s):
    return None, 'outside-guarantee', 'overflow region (decided in BITS)'
  qmin, qmax = -(2 ** (nb - 1)), 2 ** (nb - 1) - 1
  if kind == 'params_rerr':
    z = int(zp[0])
    bad = (not qmin <= z <= qmax) or (sym and z != 0) or not s > 0 or (
        s < 2.0 ** -30)
    return bad, 'params', f'{what}: zp={z} scale={s!r}'
  if kind in ('coverage', 'cov_exact'):
    # exact integers (the wrap-around is a separate obligation)
    dlo = (lo - int(zp[0])) * s
    dhi = (hi - int(zp[0])) * s
    tol = s / 2 + s * slack
    bad = not (dlo <= float(mn[0]) + tol and dhi >= float(mx[0]) - tol)
    return bad, 'coverage', f'{what}: covers [{dlo!r},{dhi!r}] step={s!r}'
  if kind == 'roundtrip_code':
    w = 8 if nb <= 8 else 16
    qv = int(d['q_0'])
    diff = np.float32(qv - int(zp[0])) * sc[0]
    q2 = uqt.uniform_quantize(np.array([diff], np.float32), p)
    return (int(q2[0]) != qv), 'roundtrip-code', (
        f'{what} zp={int(zp[0])} scale={s!r} q={qv}: '
        f'quantize((q-zp)*scale)={int(q2[0])}')
  if kind == 'monotone':
    x = np.array([_f(d, 'x_0'), _f(d, 'x_1')], np.float32)
    if not x[0] <= x[1]:
      return None, 'outside-guarantee', 'rounded x0 > x1'
    q = uqt.uniform_quantize(x, p)
    return (int(q[0]) > int(q[1])), 'monotone', f'{what} x={x!r} q={q!r}'
  return None, 'unhandled', ob


def replay(c):
  d = c['data']
  ob = c['obligation']
  tag = d['tag']
  kind = tag.split('/')[0]
  with np.errstate(all='ignore'):
    if kind == 'bias':
      return _replay_bias(d, ob, tag)
    if kind == 'per_channel':
      return _replay_pc(d, ob, tag)
    _, nb, sym = tag.split('/')
    nb, sym = int(nb), sym == 'True'
    if kind in ('qrange', 'deq_int'):
      return _replay_g(c, d, ob, kind, nb, sym)
    if kind in ('params_rerr', 'coverage', 'cov_exact', 'roundtrip_x',
                'roundtrip_code', 'monotone'):
      return _replay_rerr(d, ob, kind, nb, sym)
    return _replay_lib(c, d, ob, kind, nb, sym)


def _replay_lib(c, d, ob, kind, nb, sym):
  mn = np.array([_f(d, 'min')], dtype=np.float32)
  mx = np.array([_f(d, 'max')], dtype=np.float32)
  if True:
    zp, sc = uqt.tensor_zp_scale_from_min_max(mn, mx, nb, sym)
    p = qtyping.UniformQuantParams(num_bits=nb, quantized_dimension=None,
                                   scale=sc, zero_point=zp, symmetric=sym)
    qmin, qmax = -(2 ** (nb - 1)), 2 ** (nb - 1) - 1
    lo, hi = _qrange(nb, sym)
    what = f'num_bits={nb} symmetric={sym} min={mn[0]!r} max={mx[0]!r}'
    if ob.startswith('C17.params.scale_finite'):
      bad = not np.isfinite(sc[0])
      wc = ('range wider than FLT_MAX: max(max,0)-min(min,0) overflows '
            'float32'
            if max(float(mx[0]), 0.0) - min(float(mn[0]), 0.0)
            >= float(np.finfo(np.float32).max) else 'other')
      return bad, wc, f'{what}: scale={sc[0]!r}'
    if ob in ('C17.params.scale_positive', 'C17.params.scale_lower_bound'):
      return (not sc[0] >= 2.0 ** -30), 'scale', f'{what}: scale={sc[0]!r}'
    if ob.startswith('C17.params.zp'):
      z = int(zp[0])
      bad = not (qmin <= z <= qmax) or (sym and z != 0)
      return bad, 'zp', f'{what}: zp={z}'
    if ob == 'C17.zero_exactly_representable':
      dq = uqt.uniform_dequantize(zp, p)
      return (dq[0] != 0), 'zero', f'{what}: deq(zp)={dq[0]!r}'
  return None, 'unhandled', ob
