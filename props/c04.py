"""C04 - quantization parameters equal the TFLite-spec reference.

The real ParamsGenerator (recipe resolution + every materialize_* function)
runs bit-precisely on symbolic statistics AND symbolic constant contents; every
emitted UniformQuantParams is compared, as z3 terms, with an independent
re-derivation from the spec (symx/spec.py): min/max formulas on the tensor's
effective statistics, bias = input scale x weight scale, same-scale
propagation (also several hops), fixed kernel ranges, per-channel dimension.
"""
from __future__ import annotations

import copy
import itertools
import numpy as np
import z3

from props import pipeline as P
from props.common import Candidate, Job, JobResult
from symx import backends as B
from symx import oracles, patch, skeletons, spec, symnp
from symx.core import Engine, Stats, Inconclusive, z3val_to_py, fpbits_to_float
from symx.symnp import SymArray

from ai_edge_quantizer import default_policy, params_generator, qtyping
from ai_edge_quantizer import recipe_manager
from ai_edge_quantizer.utils import tfl_flatbuffer_utils
from ai_edge_quantizer.algorithms.uniform_quantize import uniform_quantize_tensor as uqt
from ai_edge_quantizer.algorithms.utils import min_max_quantize_utils as mmu
from ai_edge_quantizer.algorithms.uniform_quantize import naive_min_max_quantize as nmm
from tensorflow.lite.tools import flatbuffer_utils

PROP = 'C04'
LEVEL = 'model_checking'
FUNCS = [params_generator.ParamsGenerator.generate_quantization_parameters,
         mmu.materialize_standard_op, mmu._get_tensor_quant_params,
         mmu.init_tensor_min_max, mmu._get_reduce_dims,
         mmu._get_bmm_weight_quantized_dim,
         mmu._materialize_standard_op_with_same_as_input_scale,
         mmu._materialize_standard_op_with_same_as_output_scale,
         mmu.materialize_op_with_output_activation_constraint,
         mmu._get_min_max_from_quant_params,
         nmm.materialize_fc_conv, nmm._materialize_bias_for_conv_ops,
         nmm.materialize_conv2d_transpose, nmm.materialize_softmax_and_logistic,
         nmm.materialize_tanh, nmm.materialize_concatenation,
         uqt.tensor_zp_scale_from_min_max, uqt.symmetric_quantize_bias_tensor,
         uqt.uniform_quantize]
ASSUMPTIONS = [
    'bounded: one- and two-op skeletons per op kind, tensors <= 8 elements, '
    '<= 3 channels; every config the real policy accepts for that op',
    'statistics and constant contents: arbitrary finite float32 (symbolic); '
    'module global np rebound to the bit-precise symbolic NumPy; '
    'tfl_flatbuffer_utils.read_model rebound to hand the parsed model with '
    'symbolic constant buffers to ParamsGenerator',
    'range facts of the formulas themselves (finite positive scale, zero point '
    'in range) are C17 Lemma P; here the emitted terms are shown EQUAL to the '
    'reference terms, and every float->int cast is shown in range',
    'that the statistics are the true ones of the float model: FFI (C09 covers '
    'how the Python side folds them)',
]
BOUNDS = {
    'quick': {'skeletons': 'single op per kind + 8 two/three-op propagation '
              'graphs', 'configs': 'every policy-accepted config per kind '
              '(8-bit activations for the propagation graphs)'},
    'thorough': {'skeletons': 'same + 600 seeded random DAGs of 2-5 ops',
                 'configs': 'same, propagation graphs also with 16-bit '
                            'activations'},
}
REACH = {'case': ['compared'], 'model': ['carried']}
F32 = z3.Float32()
_Op = qtyping.TFLOperationName


def _fin(t):
  return z3.Not(z3.Or(z3.fpIsNaN(t), z3.fpIsInf(t)))


def symbolic_model(e, model_bytes):
  """Parsed model whose float constant buffers hold symbolic float32 data."""
  m = flatbuffer_utils.read_model_from_bytearray(bytearray(model_bytes))
  consts = {}
  for si, sg in enumerate(m.subgraphs):
    for ti, t in enumerate(sg.tensors):
      if t.type == 0 and oracles.has_data(m, t) and t.buffer not in consts:
        n = int(np.prod(t.shape)) if len(t.shape) else 1
        arr = SymArray.fresh(f'c_s{si}_t{ti}', (n,), np.float32)
        for x in arr.el:
          e.assume(_fin(x))
        consts[t.buffer] = arr
        m.buffers[t.buffer].data = arr
  return m, consts


def run_params(e, model_bytes, recipe):
  be = symnp.set_backend(B.Bits())
  be.reset()
  m, consts = symbolic_model(e, model_bytes)
  pristine = flatbuffer_utils.read_model_from_bytearray(bytearray(model_bytes))
  rm = recipe_manager.RecipeManager()
  rm.load_quantization_recipe(copy.deepcopy(recipe))
  qsvs = P.symbolic_qsvs(e, pristine, 'BITS') if rm.need_calibration() else {}
  qsv_terms = {k: (v['min'].el[0], v['max'].el[0]) for k, v in qsvs.items()}
  res = {'model': pristine, 'consts': consts, 'rm': rm, 'qsv': qsv_terms,
         'raised': None, 'results': None, 'side': be.side}
  with patch.symbolic_numpy(), patch.rebind(
      'ai_edge_quantizer.utils.tfl_flatbuffer_utils', 'read_model',
      lambda _: m):
    try:
      pg = params_generator.ParamsGenerator(model_bytes)
      res['results'] = pg.generate_quantization_parameters(
          rm, {k: dict(v) for k, v in qsvs.items()} or None)
    except Inconclusive:
      raise
    except Exception as ex:  # pylint: disable=broad-except
      res['raised'] = ex
  return res


# ---------------------------------------------------------------------------
# reference derivation
# ---------------------------------------------------------------------------
class Ref:
  """Expected parameters: list of (tensor name, role, op id, expectation)."""

  def __init__(self, res):
    self.m = res['model']
    self.consts = res['consts']
    self.rm = res['rm']
    self.eff = dict(res['qsv'])  # name -> (min term, max term) | ('fixed',..)
    self.exp = []

  def const_terms(self, t):
    arr = self.consts[t.buffer]
    return list(arr.el), tuple(int(x) for x in t.shape)

  def minmax_const(self, t, qdim):
    els, shape = self.const_terms(t)
    if qdim is None:
      return [spec.fold_min(els)], [spec.fold_max(els)]
    mins, maxs = [], []
    idx = np.arange(len(els)).reshape(shape) if shape else np.arange(1)
    for c in range(shape[qdim]):
      sel = np.take(idx, c, axis=qdim).reshape(-1)
      mins.append(spec.fold_min([els[i] for i in sel]))
      maxs.append(spec.fold_max([els[i] for i in sel]))
    return mins, maxs

  def params_from_stats(self, name, bits, sym):
    st = self.eff[name]
    zp, sc, zpf = spec.zp_scale(st[0], st[1], bits, sym, True)
    return {'bits': bits, 'sym': sym, 'scales': [sc], 'zps': [_zp_int(zp, zpf, bits)],
            'qdim': None}

  def run(self):
    m = self.m
    codes = m.operatorCodes
    for si, sg in enumerate(m.subgraphs):
      ops = [(oi, op, tfl_flatbuffer_utils.TFL_OP_CODE_TO_NAME.get(
          codes[op.opcodeIndex].builtinCode)) for oi, op in
             enumerate(sg.operators)]
      # virtual INPUT / OUTPUT operators come last, like in the library
      virt = [(-1, qtyping.IOOperator(inputs=[], outputs=list(sg.inputs),
                                      op_key=_Op.INPUT), 'INPUT'),
              (-1, qtyping.IOOperator(inputs=list(sg.outputs), outputs=[],
                                      op_key=_Op.OUTPUT), 'OUTPUT')]
      for oi, op, name in ops + virt:
        if name is None:
          continue
        scope = ''.join(oracles.tname(sg.tensors[o]) + ';' for o in op.outputs
                        if o != -1)
        alg, cfg = self.rm.get_quantization_configs(_Op(name), scope)
        mode = oracles.mode_of((alg, cfg))
        if mode in ('NOQ', 'FP16', 'OTHER'):
          continue
        self.op(sg, oi, op, name, cfg, mode)
    return self.exp

  def op(self, sg, oi, op, name, cfg, mode):
    m = self.m
    act = cfg.activation_tensor_config
    wcfg = cfg.weight_tensor_config
    in_idx, w_idx, b_idx = spec.WEIGHT_OPS.get(name, (None, None, None))
    ins = [i for i in op.inputs]
    outs = [o for o in op.outputs if o != -1]

    def is_float(i):
      return i != -1 and sg.tensors[i].type == 0

    def is_const(i):
      return oracles.has_data(m, sg.tensors[i])

    # outputs first for same-as-output ops, inputs first otherwise
    out_params = {}
    if mode == 'SRQ' and name in spec.SAME_AS_OUTPUT:
      for o in outs:
        if is_float(o):
          out_params[o] = self.params_from_stats(
              oracles.tname(sg.tensors[o]), act.num_bits, act.symmetric)
    first_in_params = None
    w_params = in_params = None
    for k, i in enumerate(ins):
      if not is_float(i):
        continue
      t = sg.tensors[i]
      nm = oracles.tname(t)
      if is_const(i):
        is_weight = name in spec.WEIGHT_OPS and k == w_idx
        if is_weight:
          tc = wcfg
        elif name in spec.WEIGHT_OPS and k == b_idx:
          continue  # bias below
        elif name in spec.WEIGHT_OPS:
          tc = wcfg  # any constant of a weight-bearing op uses weight config
        else:
          tc = act
        if tc is None:
          continue
        qdim = None
        gran = getattr(tc.granularity, 'value', tc.granularity)
        if gran == 'CHANNELWISE':
          adj = bool(getattr(op.builtinOptions, 'adjY', False)) \
              if name == 'BATCH_MATMUL' else False
          qdim = spec.weight_qdim(name, len(t.shape), adj)
        mins, maxs = self.minmax_const(t, qdim)
        scs, zps = [], []
        for a, b in zip(mins, maxs):
          zp, sc, zpf = spec.zp_scale(a, b, tc.num_bits, tc.symmetric, True)
          scs.append(sc)
          zps.append(_zp_int(zp, zpf, tc.num_bits))
        p = {'bits': tc.num_bits, 'sym': tc.symmetric, 'scales': scs,
             'zps': zps, 'qdim': qdim, 'const': (t, qdim)}
        if not is_weight and qdim is not None:
          p['per_channel_on_non_weight'] = True
        self.exp.append((nm, 'consumer', oi, p))
        if is_weight:
          w_params = p
      elif mode == 'SRQ':
        if name in spec.SAME_AS_OUTPUT and outs and outs[0] in out_params:
          p = out_params[outs[0]]
        else:
          p = self.params_from_stats(nm, act.num_bits, act.symmetric)
        self.exp.append((nm, 'consumer', oi, p))
        if first_in_params is None:
          first_in_params = (nm, p)
        if name in spec.WEIGHT_OPS and k == in_idx:
          in_params = p
    # bias
    if (mode == 'SRQ' and b_idx is not None and b_idx < len(ins)
        and ins[b_idx] != -1 and w_params is not None and in_params is not None):
      t = sg.tensors[ins[b_idx]]
      scs = [z3.fpMul(spec.RNE, in_params['scales'][0], ws)
             for ws in w_params['scales']]
      self.exp.append((oracles.tname(t), 'consumer', oi, {
          'bits': 64 if act.num_bits == 16 else 32, 'sym': True,
          'scales': scs, 'zps': [z3.BitVecVal(0, 32)] * len(scs),
          'qdim': None if len(scs) == 1 else 0, 'bias': True}))
    if mode != 'SRQ':
      return
    for o in outs:
      if not is_float(o):
        continue
      nm = oracles.tname(sg.tensors[o])
      if name in spec.SAME_AS_INPUT and first_in_params is not None:
        p = first_in_params[1]
        self.eff[nm] = self.eff[first_in_params[0]]
      elif (name, act.num_bits) in spec.FIXED_OUTPUT:
        s, z = spec.FIXED_OUTPUT[(name, act.num_bits)]
        p = {'bits': act.num_bits, 'scales': [s], 'zps': [z], 'qdim': None,
             'fixed': True}
        # downstream ops see the range of the fixed parameters (mirrored when
        # the activation config is symmetric)
        qmin, qmax = spec.qrange(act.num_bits)
        fmx = (qmax - z) * s
        fmn = -fmx if act.symmetric else (qmin - z) * s
        self.eff[nm] = (spec.fp(fmn), spec.fp(fmx))
      elif o in out_params:
        p = out_params[o]
      else:
        p = self.params_from_stats(nm, act.num_bits, act.symmetric)
      self.exp.append((nm, 'producer', oi, p))


def _zp_int(zp32, zpf, bits):
  """The reference zero point as the integer the C cast of the (integral)
  float value yields: same cast model as the shim, so that agreement is a
  structural identity (that the value is in range is C17 Lemma P)."""
  if zpf is None:
    return zp32
  dt = np.dtype(np.int8 if bits <= 8 else np.int16)
  c = B.Bits().cast(np.dtype(np.float32), dt, zpf)
  return z3.SignExt(32 - dt.itemsize * 8, c)


def _i32(x, dt):
  if B.is_conc(x):
    return z3.BitVecVal(int(x), 32)
  w = dt.itemsize * 8
  if w == 32:
    return x
  if w > 32:
    return z3.Extract(31, 0, x)
  return z3.SignExt(32 - w, x) if dt.kind == 'i' else z3.ZeroExt(32 - w, x)


def compare(e, got, exp, where):
  """Issues obligations that `got` (UniformQuantParams) equals `exp`."""
  if got is None or not isinstance(got, qtyping.UniformQuantParams):
    e.check('C04.params.present', False, info=[f'{where}: no uniform params'])
    return
  sc = got.scale if isinstance(got.scale, SymArray) else SymArray.from_numpy(
      np.asarray(got.scale))
  zp = got.zero_point if isinstance(got.zero_point, SymArray) else \
      SymArray.from_numpy(np.asarray(got.zero_point))
  n = len(exp['scales'])
  e.check('C04.params.scale_zp_same_length_one_or_channels',
          sc.size == zp.size == n, info=[where, sc.size, zp.size, n])
  e.check('C04.params.num_bits', got.num_bits == exp['bits'],
          info=[where, got.num_bits, exp['bits']])
  if 'sym' in exp:
    e.check('C04.params.symmetric_flag', bool(got.symmetric) == bool(exp['sym']),
            info=[where])
  qd = got.quantized_dimension
  e.check('C04.params.quantized_dimension',
          qd == exp['qdim'], info=[where, qd, exp['qdim']])
  if exp.get('per_channel_on_non_weight'):
    e.check('C04.params.per_channel_only_on_weights', False, info=[where])
  if sc.size != n or zp.size != n:
    return
  if exp.get('fixed'):
    for i in range(n):
      s, z = sc.el[i], zp.el[i]
      okc = B.is_conc(s) and B.is_conc(z) and float(s) == float(
          exp['scales'][i]) and int(z) == int(exp['zps'][i])
      e.check('C04.fixed_range.kernel_constants', bool(okc),
              info=[where, str(s), str(z)])
    return
  for i in range(n):
    s = symnp.backend().lift(sc.dtype, sc.el[i])
    if sc.dtype != np.float32:
      # compared as stored in the flatbuffer (float32)
      s = symnp.astype(SymArray((), sc.dtype, [sc.el[i]]), np.float32).terms()[0]
    name = ('C04.bias.scale_is_input_times_weight_scale' if exp.get('bias')
            else 'C04.params.scale_equals_reference')
    # SMT equality (NaN == NaN, +0 != -0): identical terms decide instantly
    e.check(name, s == exp['scales'][i], info=[where, i])
    z = _i32(zp.el[i], zp.dtype)
    e.check('C04.params.zero_point_equals_reference', z == exp['zps'][i],
            info=[where, i])


def find(results, name, role, oi):
  r = results.get(name)
  if r is None:
    return None
  if role == 'producer':
    return r.producer if r.producer is not None and \
        r.producer.subgraph_op_id == oi else None
  for c in r.consumers or []:
    if c.subgraph_op_id == oi:
      return c
  return None


def make_harness(model_bytes, recipe):
  def h(e):
    res = run_params(e, model_bytes, recipe)
    if res['raised'] is not None:
      e.check('C04.no_exception_on_accepted_config', False,
              info=[f"{type(res['raised']).__name__}: "
                    f"{str(res['raised'])[:160]}"])
      return
    exp = Ref(res).run()
    e.reach('compared')
    for name, role, oi, p in exp:
      got = find(res['results'], name, role, oi)
      where = f'{name}/{role}/op{oi}'
      if got is None:
        e.check('C04.params.present', False, info=[where])
        continue
      compare(e, got.parameters, p, where)
    # float->int casts: the bit-precise shim models the x86 result for every
    # operand, so the term equalities above are exact; that the casts are in
    # range for the library's parameters is C17 (Lemma P, quantize.in_range).
  return h


# ---------------------------------------------------------------------------
# cases
# ---------------------------------------------------------------------------
KIND_TO_OP = {
    'FC': 'FULLY_CONNECTED', 'FC_NOBIAS': 'FULLY_CONNECTED',
    'CONV_2D': 'CONV_2D', 'DEPTHWISE_CONV_2D': 'DEPTHWISE_CONV_2D',
    'TRANSPOSE_CONV': 'CONV_2D_TRANSPOSE', 'BMM': 'BATCH_MATMUL',
    'BMM_CONST': 'BATCH_MATMUL', 'BMM_CONST_ADJY': 'BATCH_MATMUL',
    'EMBEDDING_LOOKUP': 'EMBEDDING_LOOKUP', 'ADD': 'ADD', 'SUB': 'SUB',
    'MUL': 'MUL', 'ADD_CONST': 'ADD', 'MUL_CONST': 'MUL', 'MUL_SAME': 'MUL',
    'RESHAPE': 'RESHAPE', 'TRANSPOSE': 'TRANSPOSE', 'MEAN': 'MEAN',
    'STRIDED_SLICE': 'STRIDED_SLICE', 'AVERAGE_POOL_2D': 'AVERAGE_POOL_2D',
    'SOFTMAX': 'SOFTMAX', 'LOGISTIC': 'LOGISTIC', 'TANH': 'TANH',
    'GELU': 'GELU', 'RSQRT': 'RSQRT', 'CONCATENATION': 'CONCATENATION',
    'CONCAT_SAME': 'CONCATENATION', 'SPLIT': 'SPLIT',
    'AVERAGE_POOL_2D_RELU': 'AVERAGE_POOL_2D',
    'AVERAGE_POOL_2D_RELU6': 'AVERAGE_POOL_2D', 'FC_RELU': 'FULLY_CONNECTED',
    'ADD_RELU6': 'ADD',
}
PROPAGATION = ['chain_reshape_reshape', 'softmax_reshape',
               'tensor_feeds_concat_and_other', 'fc_fc', 'chain_tanh_fc',
               'split_add', 'chain_fc_reshape_softmax', 'tanh_concat_same']


def policy_recipes(op_name):
  """One '.*'/'*' recipe per config the real policy accepts for op_name."""
  out = {}
  pol = default_policy.DEFAULT_CONFIG_CHECK_POLICY.get(_Op(op_name), [])
  for k, cfg in enumerate(pol):
    d = cfg.to_dict()
    tag = ('a' + str(cfg.activation_tensor_config.num_bits)
           + ('s' if cfg.activation_tensor_config.symmetric else 'a')
           if cfg.activation_tensor_config else 'af')
    w = cfg.weight_tensor_config
    tag += f'_w{w.num_bits}{"s" if w.symmetric else "a"}' \
           f'{getattr(w.granularity, "value", w.granularity)[0]}'
    tag += '_' + getattr(cfg.compute_precision, 'value',
                         cfg.compute_precision)[0]
    tag += 'x' if cfg.explicit_dequantize else ''
    out[f'{k}:{tag}'] = [dict(regex='.*', operation='*',
                              algorithm_key='min_max_uniform_quantize',
                              op_config=_jsonable(d))]
  return out


def _jsonable(d):
  if isinstance(d, dict):
    return {k: _jsonable(v) for k, v in d.items()}
  return getattr(d, 'value', d)


def cases(tier):
  fam = P.skeleton_family(tier)
  cs = []
  for kind, op_name in KIND_TO_OP.items():
    for rname, recipe in policy_recipes(op_name).items():
      cs.append((f'single_{kind}', rname, recipe))
  for sk in PROPAGATION:
    cs.append((sk, 'SRQ8', [P.rule('.*', '*', 'SRQ8')]))
    cs.append((sk, 'SRQ8sym', [dict(P.rule('.*', '*', 'SRQ8'), op_config=dict(
        P._cfg('SRQ8'), activation_tensor_config=dict(
            num_bits=8, symmetric=True, granularity='TENSORWISE', dtype='INT',
            block_size=0)))]))
    if tier == 'thorough':
      cs.append((sk, 'SRQ16', [P.rule('.*', '*', 'SRQ16')]))
  if tier == 'thorough':
    # seeded random DAGs: several-hop propagation through arbitrary graphs
    for sk in list(P.skeleton_family('thorough_dags'))[:600]:
      cs.append((sk, 'SRQ8', [P.rule('.*', '*', 'SRQ8')]))
      cs.append((sk, 'SRQ16', [P.rule('.*', '*', 'SRQ16')]))
  return cs


def job_case(job):
  tier = job.args['tier']
  fam = dict(P.skeleton_family(tier))
  if tier == 'thorough':
    fam.update(P.skeleton_family('thorough_dags'))
  st = Stats()
  cands, inconc, samples = [], [], []
  allc = {(s, r): rec for s, r, rec in cases(tier)}
  for skel, rname in job.args['cases']:
    recipe = allc[(skel, rname)]
    en = Engine(solver_timeout_ms=90000, max_paths=200, wall_budget_s=600,
                oneshot_checks=True)
    en.falsify_first = True
    en.stop_path_on_violation = True
    en.explore(make_harness(fam[skel], recipe), stop_on_violation=True)
    st.merge(en.stats)
    inconc += [f'{skel}/{rname}: {x}' for x in en.inconclusive]
    seen = set()
    for v in en.violations:
      key = (v.name, str(v.info)[:120])
      if key in seen:
        continue
      seen.add(key)
      c = Candidate(v.name, {
          'skeleton': skel, 'recipe': rname, 'info': v.info,
          'stats': {k: z3val_to_py(x) for k, x in v.model_values.items()}})
      c.job = job.name
      cands.append(c)
    if len(samples) < 2:
      samples.append(f'{skel} x config {rname}: {en.stats.obligations} term '
                     'obligations over symbolic statistics and constants')
  return JobResult(job.name, st.as_dict(), cands, inconc, {}, samples=samples)


# ---------------------------------------------------------------------------
# model level: the rewritten model carries the generated parameters
# (composition: generated parameters == spec is decided above; here the whole
# real pipeline runs and every operand/result of every operator in the final
# model is compared, as terms over the symbolic statistics, with the
# parameters the real ParamsGenerator produced for that (tensor, operator))
# ---------------------------------------------------------------------------
MODEL_SKELS = ['single_CONCATENATION', 'single_CONCAT_SAME', 'single_FC',
               'single_ADD', 'single_SPLIT', 'chain_fc_tanh',
               'tensor_feeds_concat_and_other', 'tanh_concat_same',
               'chain_fc_reshape_softmax', 'tensor_2_consumers', 'diamond',
               'intermediate_is_output', 'fc_fc', 'split_add',
               'two_subgraphs_independent']
MODEL_RECIPES = ('shipped:default_a8w8_recipe.json',
                 'shipped:default_a16w8_recipe.json',
                 'shipped:default_af32w8float_recipe.json')


def oracle_model(e, out):
  e.reach('carried')
  if out.raised is not None or out.params is None:
    return
  for where, cond, what in oracles.carried_params(out.input_model, out.model,
                                                  out.params):
    e.check('C04.model.operator_sees_the_generated_parameters',
            cond if isinstance(cond, bool) else cond, info=[where, what])


def model_cases(tier):
  fam = P.skeleton_family(tier)
  names = [k for k in MODEL_SKELS if k in fam] if tier == 'quick' else [
      k for k in fam]
  cs = []
  for skel in names:
    rf = P.recipe_family(fam[skel], tier)
    for rname in rf:
      if rname in MODEL_RECIPES or rname.startswith('only:') or \
          rname.startswith('optype:'):
        cs.append((skel, rname))
  # seeded random DAGs under the two full-integer shipped recipes
  dags = list(P.skeleton_family('thorough_dags'))
  for skel in dags[:30 if tier == 'quick' else 300]:
    for rname in MODEL_RECIPES[:2]:
      cs.append((skel, rname))
  return cs


def job_model(job):
  tier = job.args['tier']
  fam = dict(P.skeleton_family(tier))
  fam.update(P.skeleton_family('thorough_dags'))
  st = Stats()
  cands, inconc, samples = [], [], []
  for skel, rname in job.args['cases']:
    recipe = P.recipe_family(fam[skel], tier)[rname]
    en, cs = P.explore_case(skel, rname, fam[skel], recipe, oracle_model,
                            max_paths=600, wall_s=120)
    st.merge(en.stats)
    inconc += [f'{skel}/{rname}: {x}' for x in en.inconclusive]
    for c in cs[:2]:
      c.data['tag'] = 'model'
      c.job = job.name
      cands.append(c)
    if len(samples) < 2:
      samples.append(f'{skel} x {rname}: operands/results of every operator '
                     'in the rewritten model vs generated parameters '
                     f'({en.stats.obligations} obligations)')
  return JobResult(job.name, st.as_dict(), cands, inconc, {}, samples=samples)


def jobs(tier, seed):
  cs = [(s, r) for s, r, _ in cases(tier)]
  js = []
  chunk = 6
  for i in range(0, len(cs), chunk):
    js.append(Job(f'case:{i // chunk}', job_case,
                  {'tier': tier, 'cases': cs[i:i + chunk]}))
  mc = model_cases(tier)
  for i in range(0, len(mc), 8):
    js.append(Job(f'model:{i // 8}', job_model,
                  {'tier': tier, 'cases': mc[i:i + 8]}))
  return js


# ---------------------------------------------------------------------------
# replay: concrete model (constants from the model), concrete statistics,
# real ParamsGenerator with real NumPy, compared with a NumPy transcription of
# the same reference.
# ---------------------------------------------------------------------------
def _np_zp_scale(mn, mx, bits, sym):
  f = np.float32
  qmin, qmax = spec.qrange(bits)
  with np.errstate(all='ignore'):
    if sym:
      bound = np.maximum(np.maximum(np.abs(f(mn)), np.abs(f(mx))), f(1e-4))
      return 0, f(bound / f(qmax))
    bmax = np.maximum(f(mx), f(0))
    bmin = np.minimum(f(mn), f(0))
    bound = np.maximum(f(bmax - bmin), f(1e-4))
    sc = f(bound / f(qmax - qmin))
    zp = int(np.rint(f(f(qmin) - f(bmin / sc))))
    return zp, sc


def _replay_model(d):
  r = P.replay_public(d['skeleton'], d['recipe'], d.get('stats'))
  out = r['outcome']
  if out.raised is not None:
    return False, 'model', f'raises {type(out.raised).__name__}'
  q = r['quantizer']
  inp = out.input_model
  qsvs = P.concrete_qsvs(inp, d.get('stats')) if q.need_calibration else None
  mb = P.model_bytes_of(d['skeleton'])
  with np.errstate(all='ignore'):
    params = params_generator.ParamsGenerator(
        mb).generate_quantization_parameters(q._recipe_manager, qsvs)
  bad = [f'{w}: {what}' for w, cond, what in oracles.carried_params(
      inp, out.model, params) if cond is not True]
  if not bad and d.get('concretize') == 'unsat':
    return 'drop', 'spurious', ''
  return bool(bad), 'model carries other parameters than generated', (
      f"skeleton={d['skeleton']} recipe={d['recipe']}: {bad[:3]}")


def replay(c):
  d = c['data']
  if d.get('tag') == 'model':
    return _replay_model(d)
  fam = dict(P.skeleton_family('thorough'))
  if d['skeleton'].startswith('dag'):
    fam.update(P.skeleton_family('thorough_dags',
                                 int(d['skeleton'][3:].split('_')[0])))
  mb = fam[d['skeleton']]
  recipe = {(s, r): rec for s, r, rec in cases('thorough')}[
      (d['skeleton'], d['recipe'])]
  stats = d.get('stats') or {}
  m = flatbuffer_utils.read_model_from_bytearray(bytearray(mb))
  # put the model's constants to the witness values
  for si, sg in enumerate(m.subgraphs):
    for ti, t in enumerate(sg.tensors):
      if t.type == 0 and oracles.has_data(m, t):
        n = int(np.prod(t.shape)) if len(t.shape) else 1
        vals = []
        for i in range(n):
          v = stats.get(f'c_s{si}_t{ti}_{i}')
          vals.append(np.float32(fpbits_to_float(v)) if v else None)
        if all(v is not None for v in vals):
          m.buffers[t.buffer].data = np.frombuffer(
              np.array(vals, np.float32).tobytes(), dtype=np.uint8)
  model_bytes = bytes(flatbuffer_utils.convert_object_to_bytearray(m))
  m2 = flatbuffer_utils.read_model_from_bytearray(bytearray(model_bytes))
  rm = recipe_manager.RecipeManager()
  rm.load_quantization_recipe(copy.deepcopy(recipe))
  qsvs = P.concrete_qsvs(m2, stats) if rm.need_calibration() else None
  try:
    with np.errstate(all='ignore'):
      results = params_generator.ParamsGenerator(
          model_bytes).generate_quantization_parameters(rm, copy.deepcopy(qsvs))
  except Exception as ex:  # pylint: disable=broad-except
    return True, 'raises', f'{type(ex).__name__}: {ex}'
  # concrete reference through the same Ref walker, on concrete "terms"
  bad = _concrete_compare(m2, rm, qsvs or {}, results)
  wc = 'params: ' + (bad[0].split(':')[0] if bad else '')
  return bool(bad), wc, (f"skeleton={d['skeleton']} config={d['recipe']}: "
                         f'{bad[:3]}')


def _concrete_compare(m, rm, qsvs, results):
  """NumPy transcription of Ref for replays."""
  bad = []
  eff = {k: (np.float32(v['min'].reshape(-1)[0]),
             np.float32(v['max'].reshape(-1)[0])) for k, v in qsvs.items()}
  codes = m.operatorCodes

  def from_stats(nm, bits, sym):
    st = eff[nm]
    zp, sc = _np_zp_scale(st[0], st[1], bits, sym)
    return {'scales': [sc], 'zps': [zp], 'qdim': None}

  def check(nm, role, oi, p):
    got = find(results, nm, role, oi)
    if got is None or not isinstance(got.parameters,
                                     qtyping.UniformQuantParams):
      bad.append(f'missing: {nm}/{role}/op{oi}')
      return
    g = got.parameters
    sc = np.asarray(g.scale).reshape(-1)
    zp = np.asarray(g.zero_point).reshape(-1)
    if len(sc) != len(p['scales']) or len(zp) != len(p['zps']):
      bad.append(f'length: {nm}/{role}/op{oi}')
      return
    if g.quantized_dimension != p['qdim']:
      bad.append(f'qdim: {nm}/{role}/op{oi}: {g.quantized_dimension} vs '
                 f"{p['qdim']}")
    for i in range(len(sc)):
      if np.float32(sc[i]) != np.float32(p['scales'][i]) or int(zp[i]) != int(
          p['zps'][i]):
        bad.append(f'value: {nm}/{role}/op{oi}[{i}]: scale {sc[i]!r} zp '
                   f"{zp[i]} vs reference {p['scales'][i]!r} {p['zps'][i]}")

  for si, sg in enumerate(m.subgraphs):
    ops = [(oi, op, tfl_flatbuffer_utils.TFL_OP_CODE_TO_NAME.get(
        codes[op.opcodeIndex].builtinCode)) for oi, op in
           enumerate(sg.operators)]
    virt = [(-1, qtyping.IOOperator([], list(sg.inputs), _Op.INPUT), 'INPUT'),
            (-1, qtyping.IOOperator(list(sg.outputs), [], _Op.OUTPUT),
             'OUTPUT')]
    for oi, op, name in ops + virt:
      if name is None:
        continue
      scope = ''.join(oracles.tname(sg.tensors[o]) + ';' for o in op.outputs
                      if o != -1)
      alg, cfg = rm.get_quantization_configs(_Op(name), scope)
      mode = oracles.mode_of((alg, cfg))
      if mode in ('NOQ', 'FP16', 'OTHER'):
        continue
      act, wcfg = cfg.activation_tensor_config, cfg.weight_tensor_config
      in_idx, w_idx, b_idx = spec.WEIGHT_OPS.get(name, (None, None, None))
      outs = [o for o in op.outputs if o != -1]
      out_params = {}
      if mode == 'SRQ' and name in spec.SAME_AS_OUTPUT:
        for o in outs:
          if sg.tensors[o].type == 0:
            out_params[o] = from_stats(oracles.tname(sg.tensors[o]),
                                       act.num_bits, act.symmetric)
      first_in = None
      w_p = in_p = None
      for k, i in enumerate(op.inputs):
        if i == -1 or sg.tensors[i].type != 0:
          continue
        t = sg.tensors[i]
        nm = oracles.tname(t)
        if oracles.has_data(m, t):
          is_w = name in spec.WEIGHT_OPS and k == w_idx
          if name in spec.WEIGHT_OPS and k == b_idx:
            continue
          tc = wcfg if name in spec.WEIGHT_OPS else act
          if tc is None:
            continue
          data = np.frombuffer(oracles.buffer_bytes(m, t), np.float32).reshape(
              t.shape)
          qdim = None
          if getattr(tc.granularity, 'value', tc.granularity) == 'CHANNELWISE':
            adj = bool(getattr(op.builtinOptions, 'adjY', False)) \
                if name == 'BATCH_MATMUL' else False
            qdim = spec.weight_qdim(name, len(t.shape), adj)
          if qdim is None:
            groups = [data.reshape(-1)]
          else:
            groups = [np.take(data, c, axis=qdim).reshape(-1)
                      for c in range(t.shape[qdim])]
          scs, zps = [], []
          for gdata in groups:
            z, s = _np_zp_scale(gdata.min(), gdata.max(), tc.num_bits,
                                tc.symmetric)
            scs.append(s)
            zps.append(z)
          p = {'scales': scs, 'zps': zps, 'qdim': qdim}
          check(nm, 'consumer', oi, p)
          if is_w:
            w_p = p
        elif mode == 'SRQ':
          if name in spec.SAME_AS_OUTPUT and outs and outs[0] in out_params:
            p = out_params[outs[0]]
          else:
            p = from_stats(nm, act.num_bits, act.symmetric)
          check(nm, 'consumer', oi, p)
          if first_in is None:
            first_in = (nm, p)
          if name in spec.WEIGHT_OPS and k == in_idx:
            in_p = p
      if (mode == 'SRQ' and b_idx is not None and b_idx < len(op.inputs)
          and op.inputs[b_idx] != -1 and w_p and in_p):
        scs = [np.float32(np.float32(in_p['scales'][0]) * np.float32(ws))
               for ws in w_p['scales']]
        check(oracles.tname(sg.tensors[op.inputs[b_idx]]), 'consumer', oi,
              {'scales': scs, 'zps': [0] * len(scs),
               'qdim': None if len(scs) == 1 else 0})
      if mode != 'SRQ':
        continue
      for o in outs:
        if sg.tensors[o].type != 0:
          continue
        nm = oracles.tname(sg.tensors[o])
        if name in spec.SAME_AS_INPUT and first_in is not None:
          p = first_in[1]
          eff[nm] = eff[first_in[0]]
        elif (name, act.num_bits) in spec.FIXED_OUTPUT:
          s, z = spec.FIXED_OUTPUT[(name, act.num_bits)]
          p = {'scales': [np.float32(s)], 'zps': [z], 'qdim': None}
          qmin, qmax = spec.qrange(act.num_bits)
          fmx = np.float32((qmax - z) * s)
          eff[nm] = (-fmx if act.symmetric else np.float32((qmin - z) * s), fmx)
        elif o in out_params:
          p = out_params[o]
        else:
          p = from_stats(nm, act.num_bits, act.symmetric)
        check(nm, 'producer', oi, p)
  return bad
