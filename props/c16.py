"""C16 - large-model (external buffer) serialization equals the in-place form.

Symbolic part: the real ModelModifier._process_constant_map and
_serialize_large_model run with symbolic buffer lengths and a symbolic
flatbuffer length; the padding loops unwind by feasibility.  z3 (LIA) decides
alignment, bounds, disjointness and "offset/size select exactly buffer i".

The one thing the symbolic run has to assume - that the second serialisation
has the same length as the dummy one - is (a) turned into the obligation that
no offset/size field that is non-default in the dummy pass becomes default
(0) in the final pass (FlatBuffers omits default scalars), and (b) validated
against the real FlatBuffers builder by running the real public path with the
threshold hook on synthetic and fixture models (translator validation, also
the replay path).
"""
from __future__ import annotations

import copy
import itertools
import os
import types
import numpy as np
import z3

from props.common import Candidate, Job, JobResult, result_from_engines
from symx import patch
from symx.core import Engine, SymInt, z3val_to_py, mkbool
from symx.segbytes import SegBytes, symlen, symbytearray, symbytes

from ai_edge_quantizer import model_modifier

PROP = 'C16'
USES_SHIM = False
LEVEL = 'model_checking'
FUNCS = [model_modifier.ModelModifier._process_constant_map,
         model_modifier.ModelModifier._serialize_large_model,
         model_modifier.ModelModifier.modify_model]
ASSUMPTIONS = [
    'model_modifier.len rebound to a symbolic length function; '
    'flatbuffer_utils.convert_object_to_bytearray rebound to return a '
    'symbolic byte string of arbitrary length L >= 8',
    'the second serialisation has the length of the dummy one PROVIDED no '
    'offset/size scalar changes between default (0) and non-default between '
    'the two passes (FlatBuffers omits default scalars); that proviso is an '
    'obligation, and the FlatBuffers builder behaviour is validated '
    'concretely with the real builder',
    'interpreter loading/executing both forms: FFI, outside the claim',
]
BOUNDS = {
    'quick': {'buffers': [0, 1, 2], 'each buffer': 'None or symbolic length '
              'n>=0', 'padding loop unwinding': 16, 'concrete models': 6},
    'thorough': {'buffers': [0, 1, 2, 3], 'each buffer': 'None or symbolic '
                 'length n>=0', 'padding loop unwinding': 16,
                 'concrete models': 'all float fixtures + synthetic'},
}


class _Buf:

  def __init__(self, data):
    self.data = data
    self.offset = 0
    self.size = 0


def _z(x):
  return x.z if isinstance(x, SymInt) else z3.IntVal(int(x))


def _check_large(e, pattern, bufs, ns, calls, out, L2, labels=None):
  labels = labels or [f'buf_{i}' for i in range(len(pattern))]
  e.reach('serialized')
  e.check('C16.two_serialisation_passes', len(calls) == 2)
  # (a) what the serializer sees is the same in both passes except for the
  # values of non-default offset/size scalars (FlatBuffers omits defaults:
  # a scalar switching between 0 and non-0 changes the buffer length)
  stable = []
  for i, has in enumerate(pattern):
    d1 = calls[0][i]
    d2 = calls[1][i]
    e.check('C16.pass.same_inline_data_in_both_passes', d1[0] is d2[0])
    for f1, f2 in ((d1[1], d2[1]), (d1[2], d2[2])):
      stable.append((_z(f1) == 0) == (_z(f2) == 0))
  e.check('C16.pass.offset_size_defaultness_stable[empty buffer]',
          z3.And(*stable) if stable else True)
  # (b) under equal serialisation length, offsets are right
  tot = _z(out.sym_len())
  e.check('C16.final.total_aligned', tot % 16 == 0)
  prev_end = None
  for i, has in enumerate(pattern):
    b = bufs[i]
    if not has:
      e.check('C16.final.none_buffer_untouched',
              z3.And(_z(b.offset) == 0, _z(b.size) == 0, b.data is None))
      e.check('C16.final.none_buffer_not_appended',
              labels[i] not in out.labels())
      continue
    pos = out.position_of(labels[i])
    if pos is None:
      # kept inside the flatbuffer: legitimate only for an empty buffer,
      # which must then be serialised exactly like the ordinary path does
      e.check('C16.final.only_empty_buffers_stay_inline', _z(ns[i]) == 0)
      e.check('C16.final.inline_buffer_untouched',
              z3.And(_z(b.offset) == 0, _z(b.size) == 0,
                     calls[1][i][0] is not None))
      continue
    e.check('C16.final.buffer_appended_once',
            out.labels().count(labels[i]) == 1)
    e.check('C16.final.external_buffer_removed_from_flatbuffer',
            calls[1][i][0] is None and b.data is None)
    p, n = pos
    e.check('C16.final.offset_selects_buffer', _z(b.offset) == _z(p))
    e.check('C16.final.size_is_buffer_length', _z(b.size) == _z(ns[i]))
    e.check('C16.final.offset_aligned', _z(b.offset) % 16 == 0)
    e.check('C16.final.in_bounds', _z(b.offset) + _z(b.size) <= tot)
    e.check('C16.final.after_flatbuffer', _z(b.offset) >= _z(L2))
    if prev_end is not None:
      e.check('C16.final.disjoint', _z(b.offset) >= prev_end)
    prev_end = _z(b.offset) + _z(b.size)
  e.check('C16.final.flatbuffer_first', out.labels()[:1] == ['fb2'])


def h_large(pattern, fix=None):
  """pattern: tuple of bools, True = buffer has data.  fix: residues pinned
  by this job (work split; the jobs together cover all residues)."""
  def h(e):
    k = len(pattern)
    # lengths written as 16*q + r so that alignment questions are about the
    # small residue only (same set of integers)
    L1 = SymInt.fresh('L1_q', 0) * 16 + SymInt.fresh('L1_r', 0, 15)
    e.assume(_z(L1) >= 8)
    # The final serialisation is assumed as long as the dummy one; what that
    # needs of the code (no offset/size scalar changing default-ness between
    # the passes) is obligation C16.pass.offset_size_defaultness_stable.
    L2 = L1
    ns = {}
    bufs = []
    for i, has in enumerate(pattern):
      if has:
        ns[i] = (SymInt.fresh(f'n_{i}_q', 0) * 16
                 + SymInt.fresh(f'n_{i}_r', 0, 15))
        bufs.append(_Buf(SegBytes([(f'buf_{i}', ns[i])])))
      else:
        bufs.append(_Buf(None))
    for name, val in (fix or {}).items():
      e.assume(e.inputs[name] == val)
    model = types.SimpleNamespace(buffers=bufs)
    calls = []

    def convert(m):
      # snapshot of what the serializer would see in this pass
      calls.append([(b.data, b.offset, b.size) for b in m.buffers])
      return SegBytes([(f'fb{len(calls)}', L1 if len(calls) == 1 else L2)])

    stub_fu = types.SimpleNamespace(convert_object_to_bytearray=convert)
    mm = model_modifier.ModelModifier.__new__(model_modifier.ModelModifier)
    mm._constant_map = []
    with patch.rebind('ai_edge_quantizer.model_modifier', 'len', symlen), \
        patch.rebind('ai_edge_quantizer.model_modifier', 'bytearray',
                     symbytearray), \
        patch.rebind('ai_edge_quantizer.model_modifier', 'bytes', symbytes), \
        patch.rebind('ai_edge_quantizer.model_modifier', 'flatbuffer_utils',
                     stub_fu):
      total = mm._process_constant_map(model)
      e.check('C16.constant_map.total_size',
              _z(total) == sum([_z(n) for n in ns.values()], z3.IntVal(0)))
      out = mm._serialize_large_model(model)
    _check_large(e, pattern, bufs, ns, calls, out, L2)
  return h


_HIST = {}


def _history_setup():
  """single_FC skeleton and two weight-only recipes (concrete)."""
  if not _HIST:
    from props import pipeline as P
    _HIST['mb'] = P.model_bytes_of('single_FC', 'quick')
    _HIST['A'] = [P.rule('.*', '*', 'WO')]
    _HIST['B'] = [P.rule('.*', '*', 'WO4')]
  return _HIST


def h_large_history(pattern, fix=None):
  """The large-model path as the public API reaches it on a USED Quantizer:
  quantize(A) through the large path (real, concrete), load recipe B, then a
  second quantize() whose serialisation step runs on symbolic buffers - the
  ModelModifier (and whatever state it carries) is the one the real
  Quantizer.quantize() uses for that second call."""
  def h(e):
    from ai_edge_quantizer import quantizer as quantizer_lib
    from tensorflow.lite.tools import flatbuffer_utils as real_fu
    hs = _history_setup()
    L1 = SymInt.fresh('L1_q', 0) * 16 + SymInt.fresh('L1_r', 0, 15)
    e.assume(_z(L1) >= 8)
    L2 = L1
    ns, bufs = {}, []
    referenced = [p != 'U' for p in pattern]
    pattern_b = [bool(p) for p in pattern]
    for i, has in enumerate(pattern_b):
      if has:
        ns[i] = (SymInt.fresh(f'n_{i}_q', 0) * 16
                 + SymInt.fresh(f'n_{i}_r', 0, 15))
        bufs.append(_Buf(SegBytes([(f'buf_{i}', ns[i])])))
      else:
        bufs.append(_Buf(None))
    for name, val in (fix or {}).items():
      e.assume(e.inputs[name] == val)
    calls = []
    all_bufs = list(bufs)

    objs = []

    def convert(m):
      calls.append([(b.data, b.offset, b.size) for b in m.buffers])
      objs.append(list(m.buffers))
      return SegBytes([(f'fb{len(calls)}', L1 if len(calls) == 1 else L2)])

    stub_fu = types.SimpleNamespace(
        convert_object_to_bytearray=convert,
        read_model_from_bytearray=real_fu.read_model_from_bytearray)
    env = dict(os.environ)
    orig = model_modifier.ModelModifier._process_constant_map
    seen = {}

    def pcm(self, quantized_model):
      # the rewritten model the serialisation step sees: these buffers, one
      # tensor per referenced buffer (pattern 'U' = a buffer with data that
      # no tensor refers to), nothing else
      from ai_edge_litert import schema_py_generated as S_
      quantized_model.buffers = bufs
      sg = quantized_model.subgraphs[0]
      sg.tensors = []
      for i, ref in enumerate(referenced):
        if ref:
          t = S_.TensorT()
          t.name, t.buffer, t.shape, t.type = f't{i}'.encode(), i, [1], 0
          sg.tensors.append(t)
      sg.operators, sg.inputs, sg.outputs = [], [], []
      quantized_model.subgraphs = [sg]
      quantized_model.metadata = []
      quantized_model.signatureDefs = []
      seen['total'] = orig(self, quantized_model)
      return seen['total']
    try:
      os.environ['AI_EDGE_QUANTIZER_VERIF'] = '1'
      os.environ['AI_EDGE_QUANTIZER_VERIF_LARGE_MODEL_THRESHOLD'] = '-1'
      q = quantizer_lib.Quantizer(hs['mb'], copy.deepcopy(hs['A']))
      q.quantize()
      q.load_quantization_recipe(copy.deepcopy(hs['B']))
      model_modifier.ModelModifier._process_constant_map = pcm
      with patch.rebind('ai_edge_quantizer.model_modifier', 'len', symlen), \
          patch.rebind('ai_edge_quantizer.model_modifier', 'bytearray',
                       symbytearray), \
          patch.rebind('ai_edge_quantizer.model_modifier', 'bytes', symbytes), \
          patch.rebind('ai_edge_quantizer.model_modifier', 'flatbuffer_utils',
                       stub_fu):
        out = q.quantize().quantized_model
    finally:
      model_modifier.ModelModifier._process_constant_map = orig
      os.environ.clear()
      os.environ.update(env)
    e.check('C16.constant_map.total_size',
            _z(seen['total']) == sum([_z(n) for n in ns.values()],
                                     z3.IntVal(0)))
    e.check('C16.history.large_path_taken', isinstance(out, SegBytes))
    if not isinstance(out, SegBytes):
      return
    # the buffers the serializer is shown (a clean-up step may legitimately
    # have dropped the unreferenced one - then from BOTH passes, and what is
    # left must still get its own bytes)
    same_list = len(objs) == 2 and [id(b) for b in objs[0]] == [
        id(b) for b in objs[1]] and all(
            any(b is a for a in all_bufs) for b in objs[0])
    e.check('C16.pass.same_buffers_in_both_passes', same_list,
            info=[[len(c) for c in calls], len(all_bufs)])
    if not same_list:
      return
    idx = [next(i for i, a in enumerate(all_bufs) if a is b) for b in objs[0]]
    for i, ref in enumerate(referenced):
      e.check('C16.history.referenced_buffer_kept', (not ref) or i in idx,
              info=[i])
    _check_large(e, [pattern_b[i] for i in idx], [all_bufs[i] for i in idx],
                 {k: ns[i] for k, i in enumerate(idx) if i in ns}, calls, out,
                 L2, labels=[f'buf_{i}' for i in idx])
  return h


def _to_candidate(tag, v):
  data = {k: z3val_to_py(x) for k, x in v.model_values.items()}
  data['tag'] = tag
  return Candidate(v.name, data)


def job_large(job):
  pattern = tuple(job.args['pattern'])
  en = Engine(solver_timeout_ms=20000, max_decisions=200)
  hist = job.args.get('history')
  en.explore((h_large_history if hist else h_large)(pattern,
                                                     job.args.get('fix')))
  tag = ('hist/' if hist else 'large/') + ''.join(
      'U' if p == 'U' else '1' if p else '0' for p in pattern)
  r = result_from_engines(job.name, [(tag, en)], _to_candidate)
  r.samples = [('second quantize() of a used Quantizer: ' if hist else '') +
               f'buffers {pattern} (True=has data, symbolic length); '
               f'{en.stats.paths} padding paths']
  return r


# ---------------------------------------------------------------------------
# concrete validation / replay through the real public path (hook)
# ---------------------------------------------------------------------------
def _build_model(buffer_lengths):
  """A tiny valid float model with the given constant buffers (None = no
  data, k = k float32 elements... here: k raw bytes, multiple of 4)."""
  from symx import skeletons
  return skeletons.const_buffers_model(buffer_lengths)


def compare_large_small(model_bytes, recipe=None, threshold=-1):
  """Runs the real ModelModifier on model_bytes through both paths and
  compares. Returns list of problems (empty = equal)."""
  from tensorflow.lite.tools import flatbuffer_utils
  from ai_edge_quantizer import params_generator, recipe_manager
  rm = recipe_manager.RecipeManager()
  if recipe:
    rm.load_quantization_recipe(recipe)
  params = params_generator.ParamsGenerator(
      model_bytes).generate_quantization_parameters(rm)
  env = dict(os.environ)
  try:
    os.environ.pop('AI_EDGE_QUANTIZER_VERIF', None)
    small = model_modifier.ModelModifier(model_bytes).modify_model(
        copy.deepcopy(params))
    os.environ['AI_EDGE_QUANTIZER_VERIF'] = '1'
    os.environ['AI_EDGE_QUANTIZER_VERIF_LARGE_MODEL_THRESHOLD'] = str(threshold)
    large = model_modifier.ModelModifier(model_bytes).modify_model(
        copy.deepcopy(params))
  finally:
    os.environ.clear()
    os.environ.update(env)
  return diff_serialisations(bytes(small), bytes(large))


def compare_history_large_small(model_bytes, recipe_a, recipe_b):
  """Public API: one Quantizer, quantize(A) and then quantize(B) both through
  the large-model path (hook) vs a fresh Quantizer(B) on the ordinary path."""
  from ai_edge_quantizer import quantizer as quantizer_lib
  env = dict(os.environ)
  try:
    os.environ.pop('AI_EDGE_QUANTIZER_VERIF', None)
    small = quantizer_lib.Quantizer(
        model_bytes, copy.deepcopy(recipe_b)).quantize().quantized_model
    os.environ['AI_EDGE_QUANTIZER_VERIF'] = '1'
    os.environ['AI_EDGE_QUANTIZER_VERIF_LARGE_MODEL_THRESHOLD'] = '-1'
    q = quantizer_lib.Quantizer(model_bytes, copy.deepcopy(recipe_a))
    q.quantize()
    q.load_quantization_recipe(copy.deepcopy(recipe_b))
    large = q.quantize().quantized_model
    again = q.quantize().quantized_model
  finally:
    os.environ.clear()
    os.environ.update(env)
  pr = diff_serialisations(bytes(small), bytes(large))
  pr += ['third call: ' + x for x in
         diff_serialisations(bytes(small), bytes(again))]
  return pr


def diff_serialisations(small, large):
  from tensorflow.lite.tools import flatbuffer_utils
  ms = flatbuffer_utils.read_model_from_bytearray(bytearray(small))
  # raw object API: read_model_from_bytearray would inline the external data
  ml = flatbuffer_utils.convert_bytearray_to_object(bytearray(large))
  problems = []
  if len(ms.buffers) != len(ml.buffers):
    return [f'buffer count {len(ms.buffers)} vs {len(ml.buffers)}']
  spans = []
  for i, (bs, bl) in enumerate(zip(ms.buffers, ml.buffers)):
    want = None if bs.data is None else bytes(np.asarray(bs.data, np.uint8))
    if bl.data is not None and len(bl.data):
      problems.append(f'buffer {i}: large form still embeds data')
    if want is None:
      if bl.offset > 1 or bl.size > 1:
        problems.append(f'buffer {i}: no data but offset/size '
                        f'{bl.offset}/{bl.size}')
      continue
    off, size = int(bl.offset), int(bl.size)
    if size != len(want):
      problems.append(f'buffer {i}: size {size} != {len(want)}')
    if off % 16:
      problems.append(f'buffer {i}: offset {off} not 16-byte aligned')
    if off + size > len(large):
      problems.append(f'buffer {i}: [{off},{off + size}) out of bounds '
                      f'{len(large)}')
    if large[off:off + size] != want:
      problems.append(f'buffer {i}: offset/size select other bytes than the '
                      'ordinary path embeds')
    spans.append((off, off + size, i))
  spans.sort()
  for (a0, a1, i), (b0, b1, j) in zip(spans, spans[1:]):
    if b0 < a1:
      problems.append(f'buffers {i} and {j} overlap')
  # all other fields equal
  for m in (ms, ml):
    for b in m.buffers:
      b.data, b.offset, b.size = None, 0, 0
  a = flatbuffer_utils.convert_object_to_bytearray(ms)
  b = flatbuffer_utils.convert_object_to_bytearray(ml)
  if bytes(a) != bytes(b):
    problems.append('fields other than buffer data/offset/size differ')
  return problems


def job_concrete(job):
  """Translator validation of the stub contract with the real builder."""
  from symx import skeletons
  cases = []
  for lens in job.args['cases']:
    cases.append((f'synthetic buffers {lens}',
                  skeletons.const_buffers_model(lens, raw=True), None))
  for name, recipe in job.args.get('fixtures', []):
    p = os.path.join('/repo/ai_edge_quantizer/tests/models', name)
    with open(p, 'rb') as f:
      cases.append((name, f.read(), recipe))
  cands, inconc, n = [], [], 0
  from props import pipeline as P
  wo, wo4, drq = ([P.rule('.*', '*', m)] for m in ('WO', 'WO4', 'DRQ'))
  for name, _ in job.args.get('fixtures', []):
    with open(os.path.join('/repo/ai_edge_quantizer/tests/models', name),
              'rb') as f:
      mb = f.read()
    for ra, rb, tag in ((wo, wo4, 'WO->WO4'), (drq, wo, 'DRQ->WO')):
      n += 1
      try:
        probs = compare_history_large_small(mb, ra, rb)
      except Exception as ex:  # pylint: disable=broad-except
        inconc.append(f'{name} history {tag}: {type(ex).__name__}: {ex}')
        continue
      if probs:
        cands.append(Candidate('C16.concrete.large_equals_small_on_used_quantizer',
                               {'tag': 'concrete_history', 'model': name,
                                'recipes': tag, 'problems': probs[:4]}))
  # a 4-bit constant with an odd element count (packed, padded nibble)
  from props import c05 as _c05
  for shp in ((5, 1), (3, 1)):
    cases.append((f'FC{list(shp)} int4 weight-only',
                  _c05.build('FC', shp), _c05.WO(4, True, 'TENSORWISE')))
  for what, mb, recipe in cases:
    n += 1
    try:
      probs = compare_large_small(mb, recipe)
    except Exception as ex:  # pylint: disable=broad-except
      inconc.append(f'{what}: {type(ex).__name__}: {ex}')
      continue
    if probs:
      cands.append(Candidate('C16.concrete.large_equals_small',
                             {'tag': 'concrete', 'what': what,
                              'lens': what, 'problems': probs}))
  st = {'paths': n, 'decisions': n, 'obligations': n,
        'discharged': n - len(cands), 'solver_calls': 0, 'solver_time': 0.0,
        'reached': {'concrete': n}}
  return JobResult(job.name, st, cands, inconc, {},
                   samples=[f'{n} models through the real public path with '
                            'the threshold hook: large form vs ordinary form'])


REACH = {'large': ['serialized'], 'hist': ['serialized'],
         'concrete': ['concrete']}


def jobs(tier, seed):
  b = BOUNDS[tier]
  js = []
  for k in b['buffers']:
    for pattern in itertools.product((True, False), repeat=k):
      nd = sum(pattern)
      name = 'large:' + ''.join('1' if p else '0' for p in pattern)
      first = [i for i, p in enumerate(pattern) if p]
      if nd >= 2:
        pins = ['L1_r'] + [f'n_{i}_r' for i in first[:nd - 2]]
        for vals in itertools.product(range(16), repeat=len(pins)):
          js.append(Job(name + ':shard' + '.'.join(map(str, vals)), job_large,
                        {'pattern': list(pattern),
                         'fix': dict(zip(pins, vals))}))
      else:
        js.append(Job(name, job_large, {'pattern': list(pattern)}))
  # the same obligations on the second quantize() of a used Quantizer
  hist_patterns = [(True,), (True, False), (False, True),
                   (False, 'U', True), (False, True, 'U')]
  for pattern in hist_patterns:
    name = 'hist:' + ''.join('U' if p == 'U' else '1' if p else '0'
                             for p in pattern)
    for r in range(16):
      js.append(Job(f'{name}:shard{r}', job_large,
                    {'pattern': list(pattern), 'history': True,
                     'fix': {'L1_r': r}}))
  if tier == 'thorough':
    for vals in itertools.product(range(16), repeat=2):
      js.append(Job('hist:11:shard' + '.'.join(map(str, vals)), job_large,
                    {'pattern': [True, True], 'history': True,
                     'fix': {'L1_r': vals[0], 'n_0_r': vals[1]}}))
  cases = [[('same', 8), 4, ('same', 8)], [('same', 3), ('same', 3)], [8], [4, 12], [16, 4, 20], [4, None, 8], [0], [4, 0], [1],
           [1, 8], [3, 1, 5], [2, 17], ['U16', 8], [4, 'U3', 8, 12]]
  fixtures = [('single_fc_bias.tflite', None), ('conv_fc_mnist.tflite', None),
              ('two_signatures.tflite', None)]
  if tier == 'thorough':
    cases += [[4] * 5, [36, 4, 4, 64], [None, 4], [1, 1], [15, 16, 17],
              [31, 1, 33]]
    fixtures += [('weight_sharing_fcs.tflite', None),
                 ('branching_conv_fc.tflite', None),
                 ('embedding_lookup.tflite', None), ('bmm.tflite', None)]
  js.append(Job('concrete', job_concrete, {'cases': cases,
                                           'fixtures': fixtures}))
  return js


def replay(c):
  d = c['data']
  if d.get('tag') == 'concrete':
    return True, 'concrete', f"{d['what']}: {d['problems']}"
  if d.get('tag') == 'concrete_history' or d['tag'].startswith('hist/'):
    # public API, real serializer, fixture models
    from props import pipeline as P
    wo, wo4 = [P.rule('.*', '*', 'WO')], [P.rule('.*', '*', 'WO4')]
    for name in ('single_fc_bias.tflite', 'conv_fc_mnist.tflite'):
      with open(os.path.join('/repo/ai_edge_quantizer/tests/models', name),
                'rb') as f:
        mb = f.read()
      probs = compare_history_large_small(mb, wo, wo4)
      if probs:
        return True, 'large-model path on a used Quantizer', (
            f'{name}: quantize(WO) then quantize(WO4) through the large-model '
            f'path on one Quantizer: {probs[:3]}')
    from symx import skeletons
    for lens in (['U16', 8], [8, 'U5', 12]):
      probs = compare_large_small(skeletons.const_buffers_model(lens, raw=True))
      if probs:
        return True, 'large-model path, model with an unreferenced buffer', (
            f'synthetic model with buffers {lens}: {probs[:3]}')
    return False, 'history', 'public-API history reproduces no difference'
  pattern = [ch == '1' for ch in d['tag'].split('/')[1]]
  lens = []
  for i, has in enumerate(pattern):
    lens.append(int(d.get(f'n_{i}_q', 0)) * 16 + int(d.get(f'n_{i}_r', 0))
                if has else None)
  from symx import skeletons
  same = [k for k, v in d.items() if k.startswith('same_content_') and v]
  if same:
    # the witness makes some constants hold identical bytes
    tied = set()
    for k in same:
      parts = k[len('same_content_'):].split('_buf_')
      tied.update(int(x.replace('buf_', '')) for x in parts)
    lens = [('same', l) if (i in tied and l) else l
            for i, l in enumerate(lens)]
  mb = skeletons.const_buffers_model(lens, raw=True)
  probs = compare_large_small(mb)
  wc = ('a present-but-empty buffer changes the flatbuffer length between '
        'the two passes' if any(l == 0 for l in lens) else 'other')
  return bool(probs), wc, f'buffers with byte lengths {lens}: {probs}'
