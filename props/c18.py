"""C18 - validate() reports the true per-tensor error, once per tensor.

The real compare_model / ComparisonResult / tfl_interpreter_utils /
validation_utils run with two fake interpreters (reference and target) whose
runtime tensors are fresh symbolic arrays per (model, sample, tensor); the
target is a really quantized version of the skeleton, so quantized tensors,
int32 zero points and quantized model inputs are exercised.  UF terms decide
that every reported value is mean_k metric(dequantize(target_k), reference_k)
for the right partner tensor; the partition into the four groups is checked
concretely; metric laws are decided bit-precisely.
"""
from __future__ import annotations

import copy
import numpy as np
import z3

from props import c09, pipeline as P
from props.common import Candidate, Job, JobResult
from symx import backends as B
from symx import fakeinterp, oracles, patch, symnp
from symx.core import Engine, Stats, Inconclusive, z3val_to_py, fpbits_to_float
from symx.symnp import SymArray

from ai_edge_quantizer import model_validator, qtyping
from ai_edge_quantizer import quantizer as quantizer_lib
from ai_edge_quantizer.utils import tfl_interpreter_utils, validation_utils
from ai_edge_quantizer.algorithms.uniform_quantize import uniform_quantize_tensor as uqt
from tensorflow.lite.tools import flatbuffer_utils

PROP = 'C18'
patch.snapshot_process_state()
LEVEL = 'model_checking'
USES_FAKE_INTERPRETER = True
FUNCS = [quantizer_lib.Quantizer.validate, model_validator.compare_model,
         model_validator.ComparisonResult.add_new_signature_results,
         model_validator._setup_validation_interpreter,
         tfl_interpreter_utils.get_tensor_data,
         tfl_interpreter_utils.invoke_interpreter_signature,
         tfl_interpreter_utils.get_tensor_name_to_details_map,
         tfl_interpreter_utils.get_constant_tensor_names,
         tfl_interpreter_utils.get_input_tensor_names,
         tfl_interpreter_utils.get_output_tensor_names,
         qtyping.UniformQuantParams.from_tfl_tensor_details,
         uqt.uniform_dequantize, validation_utils.mean_squared_difference,
         validation_utils.median_diff_ratio,
         validation_utils._preprocess_same_size_arrays]
ASSUMPTIONS = [
    'interpreters replaced by symx.fakeinterp (contract validated against the '
    'real one): runtime tensors are fresh arbitrary arrays per (model, sample, '
    'tensor); that they are the models\' true tensors is FFI',
    'module-level float() of validation_utils/model_validator rebound to keep '
    'symbolic scalars (as float64, which is what float() of a float32 is)',
    'float operations uninterpreted for the wiring obligations (which tensor '
    'meets which partner, dequantization parameters, once per sample, mean); '
    'metric laws bit-precise on arrays of <= 3 elements (float32)',
    '1-2 samples, both metrics, every signature of the skeleton',
]
BOUNDS = {
    'quick': {'skeletons': 8, 'recipes': 'a8w8 / weight-only / selective',
              'samples': [1, 2], 'metric-law arrays': '<= 3 elements'},
    'thorough': {'skeletons': 16, 'recipes': 'same', 'samples': [1, 2],
                 'metric-law arrays': '<= 3 elements'},
}
REACH = {'val': ['compared'], 'metric': ['metric'], 'save': ['save']}
SKELS = ['single_FC', 'chain_fc_tanh', 'tensor_2_consumers',
         'intermediate_is_output', 'input_is_output', 'single_SPLIT',
         'two_subgraphs_independent', 'two_subgraphs_signatures_reordered',
         'const_shared_by_two_ops',
         'constant_is_output']
SKELS_T = SKELS + ['single_EMBEDDING_LOOKUP', 'diamond', 'tanh_concat_same',
                   'chain_fc_reshape_softmax', 'two_subgraphs_shared_buffer',
                   'single_CONV_2D', 'single_ADD_CONST', 'fc_fc']


def symfloat(x):
  if isinstance(x, SymArray):
    if x.size != 1:
      raise TypeError('only size-1 arrays can be converted')
    return symnp.astype(SymArray((), x.dtype, x.el), np.float64)
  return float(x)


def quantized_bytes(skel, rname, stretch=None):
  """The skeleton really quantized under the recipe (default concrete
  statistics; stretch: the same with all ranges multiplied - another
  quantized version of the model with other parameters at the same
  coordinates)."""
  if stretch is None:
    res = P.replay_public(skel, rname, None)
    if res['raised'] is not None:
      return None
    return res['bytes']
  import copy
  from ai_edge_quantizer import quantizer as quantizer_lib
  mb = P.model_bytes_of(skel)
  recipe = P.recipe_family(mb, 'thorough')[rname]
  inp = flatbuffer_utils.read_model_from_bytearray(bytearray(mb))
  q = quantizer_lib.Quantizer(mb, copy.deepcopy(recipe))
  qsvs = None
  if q.need_calibration:
    qsvs = {k: {kk: (vv * np.float32(stretch)).astype(np.float32)
                for kk, vv in v.items()}
            for k, v in P.concrete_qsvs(inp, None).items()}
  try:
    with np.errstate(all='ignore'):
      return bytes(q.quantize(qsvs).quantized_model)
  except Exception:  # pylint: disable=broad-except
    return None


def content_fn(tag, sample, si, ti, name, shape, dtype):
  nm = f'X{tag}_k{sample}_s{si}_t{ti}'.replace("('never', ", 'n').replace(
      ')', '')
  return SymArray.fresh(nm, shape, dtype)


class TaggedModule:
  """fake interpreter module whose instances are tagged ref/tgt by the model
  bytes they are created from."""

  def __init__(self, tags):
    self.tags = tags
    self.OpResolverType = fakeinterp.OpResolverType
    outer = self

    class Interp(fakeinterp.Interpreter):

      def __init__(self, model_content=None, **kw):
        fakeinterp.STATE['tag'] = outer.tags.get(bytes(model_content), '?')
        super().__init__(model_content=model_content, **kw)
    self.Interpreter = Interp


def my_dequantize(arr, detail):
  """Independent dequantization of an interpreter tensor (TFLite spec)."""
  qp = detail['quantization_parameters']
  scales, zps, qd = qp['scales'], qp['zero_points'], qp['quantized_dimension']
  if len(scales) == 0:
    return arr
  shape = arr.shape
  out = []
  idx = list(np.ndindex(*shape)) if shape else [()]
  for flat, mi in enumerate(idx):
    c = mi[qd] if len(scales) > 1 else 0
    q = SymArray((), arr.dtype, [arr.el[flat]])
    out.append((q - np.int32(zps[c])) * np.float32(scales[c]))
  res = symnp.stack_list(out) if out else SymArray.from_numpy(
      np.zeros((0,), np.float64))
  return res.reshape(shape) if shape else SymArray((), res.dtype, res.el)


def make_harness(ref_bytes, tgt_bytes, metric, n, prior_bytes=None,
                 reference_kernel=False):
  def h(e):
    be = symnp.set_backend(B.UF())
    be.reset()
    # every path starts from the process-wide state of a fresh process
    patch.fresh_process_state()
    fakeinterp.STATE.update(sample=0, tag='', content=content_fn)
    ref_m = flatbuffer_utils.read_model_from_bytearray(bytearray(ref_bytes))
    tags = {bytes(ref_bytes): 'ref', bytes(tgt_bytes): 'tgt'}
    if ref_bytes == tgt_bytes:
      tags = {bytes(ref_bytes): 'same'}
    if prior_bytes is not None and bytes(prior_bytes) not in tags:
      tags[bytes(prior_bytes)] = 'pri'
    mod = TaggedModule(tags)
    test_data = {}
    snap = {}
    for key, sd in c09.signatures(ref_m):
      samples = [c09.sample_inputs(ref_m, sd, k) for k in range(n)]
      test_data[key] = samples
      snap[key] = [(id(s), {a: id(v) for a, v in s.items()}) for s in samples]

    def data_for(key):
      for k, s in enumerate(test_data[key]):
        fakeinterp.STATE['sample'] = k
        yield s
    lazy = {k: data_for(k) for k in test_data}
    fn = validation_utils.get_validation_func(metric)
    with patch.symbolic_numpy(), patch.rebind(
        'ai_edge_quantizer.utils.tfl_interpreter_utils', 'tfl', mod), \
        patch.rebind('ai_edge_quantizer.utils.validation_utils', 'float',
                     symfloat), patch.rebind(
                         'ai_edge_quantizer.model_validator', 'float',
                         symfloat):
      if prior_bytes is not None:
        # history: another quantized version of the same model (other
        # parameters at the same tensor coordinates) was validated before in
        # this process; its result is not looked at
        try:
          model_validator.compare_model(
              ref_bytes, prior_bytes, {k: data_for(k) for k in test_data},
              metric, fn)
        except Inconclusive:
          raise
        except Exception:  # pylint: disable=broad-except
          pass
      try:
        # through the public facade: Quantizer.validate() compares its float
        # model with the model of its last quantization result
        qv = quantizer_lib.Quantizer(ref_bytes, None)
        qv._result = quantizer_lib.QuantizationResult([], tgt_bytes)
        result = qv.validate(lazy, metric, reference_kernel)
      except Inconclusive:
        raise
      except Exception as ex:  # pylint: disable=broad-except
        e.reach('compared')
        e.check('C18.compare_model_does_not_raise', False,
                info=[f'{type(ex).__name__}: {str(ex)[:120]}'])
        return
      e.reach('compared')
      e.check('C18.validate.test_data_not_modified', all(
          [(id(s), {a: id(v) for a, v in s.items()}) for s in test_data[k]]
          == snap[k] for k in test_data))
      # the flat view is the union of the groups, value for value
      flat = result.get_all_tensor_results()
      want_flat = {}
      for key, _ in c09.signatures(ref_m):
        r_ = result.get_signature_comparison_result(key)
        for g_ in (r_.input_tensors, r_.output_tensors, r_.constant_tensors,
                   r_.intermediate_tensors):
          want_flat.update(g_)
      e.check('C18.get_all_tensor_results_is_the_union_of_the_groups',
              set(flat) == set(want_flat) and all(
                  flat[k] is want_flat[k] for k in flat),
              info=[sorted(set(flat) ^ set(want_flat))[:4]])
      # reference values
      ri = fakeinterp.Interpreter(model_content=ref_bytes)
      ti = fakeinterp.Interpreter(model_content=tgt_bytes)
      for key, sd in c09.signatures(ref_m):
        si = sd.subgraphIndex
        res = result.get_signature_comparison_result(key)
        groups = {'input': res.input_tensors, 'output': res.output_tensors,
                  'constant': res.constant_tensors,
                  'intermediate': res.intermediate_tensors}
        rd = {d['name']: d for d in ri.get_tensor_details(si) if d['name']}
        td = {d['name']: d for d in ti.get_tensor_details(si) if d['name']}
        both = [nm for nm in rd if nm in td and rd[nm]['dtype'] != np.object_]
        for nm in both:
          where = [g for g, dct in groups.items() if nm in dct]
          e.check('C18.every_common_tensor_reported_exactly_once',
                  len(where) == 1, info=[key, nm, where])
        extra = [nm for g in groups.values() for nm in g if nm not in both]
        e.check('C18.no_entry_for_a_tensor_absent_from_either_model',
                not extra, info=[key, extra[:3]])
        # group membership
        in_names = {oracles.tname(ref_m.subgraphs[si].tensors[tm.tensorIndex])
                    for tm in sd.inputs}
        out_names = {oracles.tname(ref_m.subgraphs[si].tensors[tm.tensorIndex])
                     for tm in sd.outputs}
        for nm in both:
          where = [g for g, dct in groups.items() if nm in dct]
          if len(where) != 1:
            continue
          t = ref_m.subgraphs[si].tensors[rd[nm]['index']]
          if nm in in_names:
            want = 'input'
          elif nm in out_names:
            want = 'output'
          elif oracles.has_data(ref_m, t):
            want = 'constant'
          else:
            want = 'intermediate'
          e.check('C18.filed_under_the_right_group', where[0] == want,
                  info=[key, nm, where[0], want])
          # value
          vals = []
          for k in range(n):
            fakeinterp.STATE['sample'] = k

            def tensor(interp, details, tag, model_bytes):
              d = details[nm]
              tt = interp._model.subgraphs[si].tensors[d['index']]
              if oracles.has_data(interp._model, tt):
                return SymArray.from_numpy(interp.get_tensor(d['index'], si))
              for tm in (dict(c09.signatures(interp._model))[key].inputs):
                if tm.tensorIndex == d['index']:
                  a = tm.name.decode() if isinstance(tm.name, bytes) \
                      else tm.name
                  x = test_data[key][k][a]
                  if len(d['quantization_parameters']['scales']):
                    qp = qtyping.UniformQuantParams.from_tfl_tensor_details(d)
                    x = uqt.uniform_quantize(x, qp)
                  return x
              return content_fn(tag, k, si, d['index'], nm,
                                tuple(int(v) for v in d['shape']),
                                np.dtype(d['dtype']))
            rt = tensor(ri, rd, tags.get(bytes(ref_bytes)), ref_bytes)
            tt_ = tensor(ti, td, tags.get(bytes(tgt_bytes)), tgt_bytes)
            rv = my_dequantize(rt, rd[nm])
            tv = my_dequantize(tt_, td[nm])
            vals.append(fn(tv, rv))  # the metric's own return value
          # compare_model: np.mean over the per-sample values, then float()
          want_v = symfloat(symnp.mean(symnp.stack_list(vals))) if any(
              isinstance(v, SymArray) for v in vals) else float(np.mean(vals))
          got_v = groups[where[0]][nm]
          if isinstance(got_v, SymArray) or isinstance(want_v, SymArray):
            r = symnp.array_equal(symnp.asarray(got_v) if isinstance(
                got_v, SymArray) else np.asarray(got_v), want_v)
            e.check('C18.value_is_mean_metric_of_dequantized_partner_tensors',
                    r if isinstance(r, bool) else r.z, info=[key, nm])
          else:
            e.check('C18.value_is_mean_metric_of_dequantized_partner_tensors',
                    (np.isnan(got_v) and np.isnan(want_v))
                    or float(got_v) == float(want_v),
                    info=[key, nm, got_v, want_v])
  return h


def h_metric(n):
  """Metric laws, bit-precise, on float32 arrays of n elements."""
  F32 = z3.Float32()

  def h(e):
    be = symnp.set_backend(B.Bits())
    be.reset()
    a = SymArray.fresh('a', (n,), np.float32)
    b = SymArray.fresh('b', (n,), np.float32)
    zero = z3.FPVal(0.0, z3.Float64())
    with patch.symbolic_numpy(), patch.rebind(
        'ai_edge_quantizer.utils.validation_utils', 'float', symfloat):
      e.reach('metric')
      m_ab = validation_utils.mean_squared_difference(a, b)
      m_ba = validation_utils.mean_squared_difference(b, a)
      m_aa = validation_utils.mean_squared_difference(a, a)
      t = lambda x: x.terms()[0] if isinstance(x, SymArray) else z3.FPVal(
          float(x), z3.Float64())
      e.check('C18.mse.zero_on_equal_arguments', z3.fpIsZero(t(m_aa)))
      e.check('C18.mse.non_negative', z3.And(
          z3.Not(z3.fpIsNaN(t(m_ab))), z3.fpGEQ(t(m_ab), zero)))
      _check_mse_symmetric(e, t(m_ab), t(m_ba))
      d_aa = validation_utils.median_diff_ratio(a, a)
      d_ab = validation_utils.median_diff_ratio(a, b)
      z32 = z3.FPVal(0.0, F32)
      td = lambda x: x.terms()[0] if isinstance(x, SymArray) else z3.FPVal(
          float(x), F32)
      e.check('C18.median_diff_ratio.zero_on_equal_arguments',
              z3.fpIsZero(td(d_aa)))
      e.check('C18.median_diff_ratio.non_negative', z3.And(
          z3.Not(z3.fpIsNaN(td(d_ab))), z3.fpGEQ(td(d_ab), z32)))
  return h


def _collect(term, kind, acc, seen):
  if term.get_id() in seen:
    return
  seen.add(term.get_id())
  if z3.is_app(term):
    if term.decl().kind() == kind:
      acc.append(term)
    for c in term.children():
      _collect(c, kind, acc, seen)


def _check_mse_symmetric(e, m_ab, m_ba):
  """(a-b)^2 summed == (b-a)^2 summed, as a lemma chain:
  L1 (bit-precise, per element): fl(x-y) and fl(y-x) are negations of each
     other, or both NaN, or both zero;
  L2 (bit-precise, the differences abstracted by fresh variables related as
     in L1): the two metric terms are equal."""
  subs_ab, subs_ba = [], []
  _collect(m_ab, z3.Z3_OP_FPA_SUB, subs_ab, set())
  _collect(m_ba, z3.Z3_OP_FPA_SUB, subs_ba, set())
  pairs = []
  for s1 in subs_ab:
    for s2 in subs_ba:
      if s1.arg(1).eq(s2.arg(2)) and s1.arg(2).eq(s2.arg(1)):
        pairs.append((s1, s2))
  ok = len(pairs) == len(subs_ab) == len(subs_ba) and len(pairs) > 0
  e.check('C18.mse.symmetric.differences_pair_up', ok,
          info=[len(subs_ab), len(subs_ba), len(pairs)])
  if not ok:
    e.check('C18.mse.symmetric', m_ab == m_ba)
    return
  facts, sub1, sub2 = [], [], []
  for i, (s1, s2) in enumerate(pairs):
    rel = lambda x, y: z3.Or(x == z3.fpNeg(y),
                             z3.And(z3.fpIsNaN(x), z3.fpIsNaN(y)),
                             z3.And(z3.fpIsZero(x), z3.fpIsZero(y), x == y))
    e.check('C18.mse.symmetric.L1_difference_is_negated', rel(s1, s2))
    d1 = z3.FP(f'd_ab_{i}', s1.sort())
    d2 = z3.FP(f'd_ba_{i}', s2.sort())
    facts.append(rel(d1, d2))
    sub1.append((s1, d1))
    sub2.append((s2, d2))
  a1 = z3.substitute(m_ab, *sub1)
  a2 = z3.substitute(m_ba, *sub2)
  # L2a: each square is the same on both sides; L2b: with the squares
  # abstracted by shared variables the two terms are identical.
  sq1, sq2 = [], []
  for (_, d1), (_, d2) in zip(sub1, sub2):
    m1 = z3.fpMul(B.RNE, d1, d1)
    m2 = z3.fpMul(B.RNE, d2, d2)
    sq1.append(m1)
    sq2.append(m2)
  for i, (m1, m2) in enumerate(zip(sq1, sq2)):
    d1, d2 = sub1[i][1], sub2[i][1]
    # one query per disjunct of the L1 relation, the relation applied by
    # substitution (d2 := -d1 | both NaN | d2 := d1)
    nan = z3.fpNaN(d1.sort())
    for m1c, m2c in (
        (m1, z3.substitute(m2, (d2, z3.fpNeg(d1)))),
        (z3.substitute(m1, (d1, nan)), z3.substitute(m2, (d2, nan))),
        (m1, z3.substitute(m2, (d2, d1)))):
      e.check('C18.mse.symmetric.L2_square_of_negated_difference_is_equal',
              m1c == m2c, only_facts=[])
  qs = [z3.FP(f'sq_{i}', m.sort()) for i, m in enumerate(sq1)]
  b1 = z3.substitute(a1, *list(zip(sq1, qs)))
  b2 = z3.substitute(a2, *list(zip(sq2, qs)))
  e.check('C18.mse.symmetric', b1 == b2, only_facts=[])


def case_list(tier):
  names = SKELS if tier == 'quick' else SKELS_T
  cs = []
  for skel in names:
    for rname in ('shipped:default_a8w8_recipe.json',
                  'shipped:default_af32w8float_recipe.json', 'SELF'):
      for metric in ('mse', 'median_diff_ratio'):
        for n in (1, 2):
          if n == 2 and (metric != 'mse' or rname == 'SELF'):
            continue
          cs.append((skel, rname, metric, n))
  # int64 biases far outside the int32 range (16-bit activations)
  cs.append(('single_FC_TINY_WEIGHTS', 'shipped:default_a16w8_recipe.json',
             'mse', 1))
  return cs


def job_val(job):
  tier = job.args['tier']
  fam = P.skeleton_family(tier)
  st = Stats()
  cands, inconc, samples = [], [], []
  for skel, rname, metric, n in job.args['cases']:
    ref = fam[skel]
    tgt = ref if rname == 'SELF' else quantized_bytes(skel, rname)
    if tgt is None:
      continue
    prior = None
    if rname != 'SELF' and n == 1:
      prior = quantized_bytes(skel, rname, stretch=4.0)
      if prior == tgt:
        prior = None
    # the reference-kernel option must not change what is compared
    refk = (rname != 'SELF' and n == 1 and metric == 'mse')
    en = Engine(solver_timeout_ms=30000, max_paths=40, wall_budget_s=200)
    en.explore(make_harness(ref, tgt, metric, n, prior, refk))
    st.merge(en.stats)
    inconc += [f'{skel}/{rname}/{metric}/{n}: {x}' for x in en.inconclusive]
    seen = set()
    for v in en.violations:
      if v.name in seen:
        continue
      seen.add(v.name)
      c = Candidate(v.name, {'skeleton': skel, 'recipe': rname,
                             'metric': metric, 'n': n, 'info': v.info,
                             'prior': prior is not None,
                             'reference_kernel': refk})
      c.job = job.name
      cands.append(c)
    if len(samples) < 2:
      samples.append(f'{skel} vs its {rname} version, {metric}, {n} symbolic '
                     f'sample(s): {en.stats.obligations} obligations')
  return JobResult(job.name, st.as_dict(), cands, inconc, {}, samples=samples)


def job_metric(job):
  st = Stats()
  inconc, cands = [], []
  for n in job.args['sizes']:
    en = Engine(solver_timeout_ms=job.args['timeout'] * 1000,
                oneshot_checks=True)
    en.explore(h_metric(n))
    st.merge(en.stats)
    inconc += [f'metric n={n}: {x}' for x in en.inconclusive]
    for v in en.violations:
      c = Candidate(v.name, {'metric_n': n, 'stats': {
          k: z3val_to_py(x) for k, x in v.model_values.items()}})
      c.job = job.name
      cands.append(c)
  return JobResult(job.name, st.as_dict(), cands, inconc, {}, samples=[
      f'metric laws on float32 arrays of sizes {job.args["sizes"]}'])


def job_save(job):
  """Concrete, real interpreter: ComparisonResult.save() writes what the
  groups hold (and the size figures of the two models)."""
  import copy, json, tempfile, shutil, os
  bad, n = [], 0
  for skel, rname in (('chain_fc_tanh', 'shipped:default_a8w8_recipe.json'),
                      ('two_subgraphs_independent',
                       'shipped:dynamic_wi8_afp32_recipe.json')):
    n += 1
    ref = P.model_bytes_of(skel)
    tgt = quantized_bytes(skel, rname)
    if tgt is None:
      continue
    qv = quantizer_lib.Quantizer(ref, None)
    qv._result = quantizer_lib.QuantizationResult([], tgt)
    d = tempfile.mkdtemp(prefix='c18_save_')
    try:
      with np.errstate(all='ignore'):
        res = qv.validate(None, 'mse')
      res.save(d, 'm')
      with open(os.path.join(d, 'm_comparison_result.json')) as fh:
        on_disk = json.load(fh)
      if on_disk.get('reduced_size_bytes') != len(ref) - len(tgt):
        bad.append(f'{skel}: reduced_size_bytes {on_disk.get("reduced_size_bytes")}'
                   f' != {len(ref) - len(tgt)}')
      ref_m = flatbuffer_utils.read_model_from_bytearray(bytearray(ref))
      for key, _ in c09.signatures(ref_m):
        r_ = res.get_signature_comparison_result(key)
        got = on_disk.get(str(key))
        want = {'error_metric': r_.error_metric,
                'input_tensors': r_.input_tensors,
                'output_tensors': r_.output_tensors,
                'constant_tensors': r_.constant_tensors,
                'intermediate_tensors': r_.intermediate_tensors}
        if got != json.loads(json.dumps(want)):
          bad.append(f'{skel}: saved result of signature {key} differs from '
                     'the groups of the returned result')
    except Exception as ex:  # pylint: disable=broad-except
      bad.append(f'{skel}: {type(ex).__name__}: {ex}')
    finally:
      shutil.rmtree(d, ignore_errors=True)
  st = {'paths': n, 'decisions': n, 'obligations': n,
        'discharged': n - min(n, len(bad)), 'solver_calls': 0,
        'solver_time': 0.0, 'reached': {'save': n}}
  cands = [Candidate('C18.saved_result_equals_returned_result',
                     {'save': True, 'problems': bad[:4]})] if bad else []
  for c in cands:
    c.job = job.name
  return JobResult(job.name, st, cands, [], {}, samples=[
      f'{n} models: validate() with generated data, save(), reload the JSON'])


def jobs(tier, seed):
  cs = case_list(tier)
  js = []
  for i in range(0, len(cs), 5):
    js.append(Job(f'val:{i // 5}', job_val, {'tier': tier,
                                             'cases': cs[i:i + 5]}))
  for n in (1, 2, 3):
    js.append(Job(f'metric:{n}', job_metric, {
        'sizes': [n], 'timeout': 300 if tier == 'quick' else 900}))
  js.append(Job('save', job_save, {}))
  return js


# ---------------------------------------------------------------------------
# replay with the REAL interpreters through Quantizer.validate()/compare_model
# ---------------------------------------------------------------------------
def _recompute(ref, tgt, ref_m, data, fn, res, d):
  """Own interpreters (all tensors preserved), own dequantization: problems
  of the reported values."""
  from ai_edge_litert import interpreter as tfl
  bad = []
  for key, sd in c09.signatures(ref_m):
    si = sd.subgraphIndex
    r = res.get_signature_comparison_result(key)
    groups = {'input': r.input_tensors, 'output': r.output_tensors,
              'constant': r.constant_tensors,
              'intermediate': r.intermediate_tensors}
    acc = {}
    for s in data[key]:
      outs = []
      for mb in (ref, tgt):
        it = tfl.Interpreter(
            model_content=mb, experimental_preserve_all_tensors=True,
            experimental_op_resolver_type=(
                tfl.OpResolverType.BUILTIN_REF if d.get('reference_kernel')
                else tfl.OpResolverType.BUILTIN_WITHOUT_DEFAULT_DELEGATES))
        it.allocate_tensors()
        tfl_interpreter_utils.invoke_interpreter_signature(it, s, key)
        dd = {x['name']: x for x in it.get_tensor_details(si) if x['name']}
        vals = {}
        for nm, det in dd.items():
          if det['dtype'] == np.object_:
            continue
          try:
            raw = it.get_tensor(det['index'], si)
          except ValueError:
            continue
          qp = det['quantization_parameters']
          if len(qp['scales']):
            from symx import decoder
            raw = decoder.dequantize(raw, qp['scales'], qp['zero_points'],
                                     qp['quantized_dimension'], raw.shape)
          vals[nm] = raw
        outs.append(vals)
      for nm in outs[0]:
        if nm in outs[1]:
          acc.setdefault(nm, []).append(fn(outs[1][nm], outs[0][nm]))
    for nm, vs in acc.items():
      where = [g for g, dct in groups.items() if nm in dct]
      if len(where) != 1:
        bad.append(f'{key}/{nm}: reported in groups {where}')
        continue
      got = groups[where[0]][nm]
      want = float(np.mean(vs))
      if not (np.isclose(got, want, rtol=1e-5, atol=1e-12)
              or (np.isnan(got) and np.isnan(want))):
        bad.append(f'{key}/{nm}: reported {got!r}, recomputed {want!r}')
  return bad


def replay(c):
  d = c['data']
  if d.get('save'):
    r = job_save(Job('save', job_save, {}))
    pr = [p for cc in r.candidates for p in cc.data['problems']]
    return bool(pr), 'saved comparison result', str(pr[:3])
  if 'metric_n' in d:
    n = d['metric_n']
    st = d['stats']
    a = np.array([fpbits_to_float(st[f'a_{i}']) for i in range(n)], np.float32)
    b = np.array([fpbits_to_float(st[f'b_{i}']) for i in range(n)], np.float32)
    with np.errstate(all='ignore'):
      v = {
          'C18.mse.zero_on_equal_arguments':
              validation_utils.mean_squared_difference(a, a) != 0,
          'C18.mse.non_negative':
              not validation_utils.mean_squared_difference(a, b) >= 0,
          'C18.mse.symmetric':
              validation_utils.mean_squared_difference(a, b)
              != validation_utils.mean_squared_difference(b, a),
          'C18.median_diff_ratio.zero_on_equal_arguments':
              validation_utils.median_diff_ratio(a, a) != 0,
          'C18.median_diff_ratio.non_negative':
              not validation_utils.median_diff_ratio(a, b) >= 0,
      }[c['obligation']]
    return bool(v), 'metric-law', f'a={a!r} b={b!r}'
  fam = P.skeleton_family('thorough')
  ref = fam[d['skeleton']]
  tgt = ref if d['recipe'] == 'SELF' else quantized_bytes(d['skeleton'],
                                                         d['recipe'])
  ref_m = flatbuffer_utils.read_model_from_bytearray(bytearray(ref))
  rng = np.random.default_rng(11)
  data = {}
  for key, sd in c09.signatures(ref_m):
    sg = ref_m.subgraphs[sd.subgraphIndex]
    ss = []
    for k in range(d['n']):
      s = {}
      for tm in sd.inputs:
        t = sg.tensors[tm.tensorIndex]
        nm = tm.name.decode() if isinstance(tm.name, bytes) else tm.name
        s[nm] = (rng.normal(size=tuple(t.shape)).astype(np.float32)
                 if t.type == 0 else rng.integers(0, 2, size=tuple(
                     t.shape)).astype(fakeinterp.NP[t.type]))
      ss.append(s)
    data[key] = ss
  fn = validation_utils.get_validation_func(d['metric'])
  if d.get('prior'):
    prior = quantized_bytes(d['skeleton'], d['recipe'], stretch=4.0)
    try:
      model_validator.compare_model(ref, prior, data, d['metric'], fn)
    except Exception:  # pylint: disable=broad-except
      pass
  try:
    qv = quantizer_lib.Quantizer(ref, None)
    qv._result = quantizer_lib.QuantizationResult([], tgt)
    res = qv.validate(data, d['metric'], bool(d.get('reference_kernel')))
  except Exception as ex:  # pylint: disable=broad-except
    wc = ('partition by popping names raises when a tensor is both a '
          'signature input and output' if isinstance(ex, KeyError)
          else f'raises {type(ex).__name__}')
    return True, wc, (f"{d['skeleton']} vs {d['recipe']}: "
                      f'{type(ex).__name__}: {ex}')
  bad = _recompute(ref, tgt, ref_m, data, fn, res, d)
  if not bad and d.get('reference_kernel'):
    # the memory planner only reuses slots in deeper graphs: the same
    # comparison on a fixture model
    try:
      from ai_edge_quantizer.utils import test_utils as _tu
      with open('/repo/ai_edge_quantizer/tests/models/conv_fc_mnist.tflite',
                'rb') as fh:
        ref2 = fh.read()
      q2 = quantizer_lib.Quantizer(
          ref2, '/repo/ai_edge_quantizer/recipes/dynamic_wi8_afp32_recipe.json')
      tgt2 = bytes(q2.quantize().quantized_model)
      data2 = {k: list(v) for k, v in _tu.create_random_normal_input_data(
          ref2, num_samples=2).items()}
      res2 = q2.validate(data2, d['metric'], True)
      ref_m2 = flatbuffer_utils.read_model_from_bytearray(bytearray(ref2))
      bad = ['conv_fc_mnist: ' + x for x in _recompute(
          ref2, tgt2, ref_m2, data2, fn, res2, d)]
    except Exception as ex:  # pylint: disable=broad-except
      bad = []
  return bool(bad), 'validate: ' + (bad[0].split(':')[1][:40] if bad else ''), \
      f"{d['skeleton']} vs {d['recipe']} {d['metric']}: {bad[:3]}"
