"""Shared machinery for the whole-pipeline properties (C01 C02 C03 C08 C15 C19).

The real ParamsGenerator -> TransformationInstructionsGenerator ->
TransformationPerformer -> ModelModifier run on a concrete skeleton model and a
concrete recipe with SYMBOLIC calibration statistics (float32 min/max per
runtime tensor).  Exploration uses the UF back end (float operations
uninterpreted: path feasibility = which parameter (dis)equalities can hold, by
congruence - a sound over-approximation of the feasible paths); a violating
path is re-executed under the bit-precise back end to obtain concrete float32
statistics, which are then replayed through the public Quantizer API.
"""
from __future__ import annotations

import copy
import json
import os
import re
import types
import numpy as np
import z3

from props.common import Candidate, Job, JobResult, result_from_engines
from symx import backends as B
from symx import oracles, patch, skeletons, symnp
from symx.core import Engine, Inconclusive, z3val_to_py, fpbits_to_float
from symx.symnp import SymArray

from ai_edge_quantizer import algorithm_manager
from ai_edge_quantizer import model_modifier
from ai_edge_quantizer import params_generator
from ai_edge_quantizer import qtyping
from ai_edge_quantizer import quantizer as quantizer_lib
from ai_edge_quantizer import recipe as recipe_lib
from ai_edge_quantizer import recipe_manager
from ai_edge_quantizer import transformation_instruction_generator as tig
from ai_edge_quantizer import transformation_performer
from ai_edge_quantizer.transformations import dequant_insert, quant_insert
from ai_edge_quantizer.transformations import quantize_tensor as qt_mod
from ai_edge_quantizer.transformations import transformation_utils
from ai_edge_quantizer.algorithms.utils import min_max_quantize_utils as mmu
from ai_edge_quantizer.algorithms.uniform_quantize import naive_min_max_quantize as nmm
from ai_edge_quantizer.utils import tfl_flatbuffer_utils
from tensorflow.lite.tools import flatbuffer_utils

FUNCS = [
    params_generator.ParamsGenerator.generate_quantization_parameters,
    params_generator.ParamsGenerator._update_model_quant_results,
    params_generator.ParamsGenerator._check_buffer_sharing,
    params_generator._compatible_tensor_transformation_params,
    params_generator._compatible_tensor_params,
    tig.TransformationInstructionsGenerator._tensor_info_generator,
    tig.TransformationInstructionsGenerator._group_consumer_transformations,
    tig.TransformationInstructionsGenerator._apply_vertical_optimization,
    tig.TransformationInstructionsGenerator._quant_params_to_transformation_insts,
    tig.TransformationInstructionsGenerator._check_tensor_transformation_instructions_valid,
    transformation_performer.TransformationPerformer._apply_single_transformation,
    transformation_performer.TransformationPerformer._update_instructions,
    transformation_performer.TransformationPerformer._update_op_id_map,
    transformation_performer.TransformationPerformer.transform_graph,
    quant_insert.insert_quant, dequant_insert.insert_dequant,
    qt_mod.quantize_tensor, qt_mod._pack_data,
    transformation_utils.add_op_code,
    transformation_utils.add_new_activation_tensor,
    model_modifier.ModelModifier.modify_model,
    mmu.materialize_standard_op, mmu.get_tensor_transformations,
    mmu._get_tensor_transformation_params_wrapper,
    mmu.materialize_op_with_output_activation_constraint,
    nmm.materialize_fc_conv, nmm._materialize_bias_for_conv_ops,
    recipe_manager.RecipeManager.get_quantization_configs,
]
ASSUMPTIONS_COMMON = [
    'bounded skeleton family (DESIGN 3.0): the graphs and recipes are '
    'enumerated, the calibration statistics on each are symbolic',
    'module global np of the repo modules rebound to the symbolic NumPy proxy; '
    'tensorflow flatbuffer_utils.convert_object_to_bytearray intercepted to '
    'capture the rewritten ModelT (the FlatBuffers builder is not encoded)',
    'exploration in the UF back end (float operations uninterpreted): a sound '
    'over-approximation of the feasible (dis)equality patterns between '
    'quantization parameters; counterexamples are concretised bit-precisely '
    'and replayed through Quantizer.quantize() before being reported',
    'statistics are arbitrary finite float32 min<=max per runtime tensor '
    '(what calibrate() would return is C09/C10)',
    'LiteRT interpreter allocate/invoke: FFI, outside the claim',
]

T = qtyping.TensorQuantizationConfig
ALG_MM = 'min_max_uniform_quantize'
RECIPE_DIR = '/repo/ai_edge_quantizer/recipes'
SHIPPED = ['default_a8w8_recipe.json', 'default_a16w8_recipe.json',
           'default_af32w8float_recipe.json', 'default_af32w4float_recipe.json',
           'dynamic_wi8_afp32_recipe.json']


# ---------------------------------------------------------------------------
# skeleton family
# ---------------------------------------------------------------------------
def _single(kind):
  if kind.endswith('_2INPUTS'):
    # the optional bias operand is left out of the input list altogether
    # (legal in the schema), instead of being marked absent with -1
    base = {'FC_2INPUTS': 'FC_NOBIAS', 'CONV_2D_2INPUTS': 'CONV_2D_NOBIAS',
            'DEPTHWISE_CONV_2D_2INPUTS': 'DEPTHWISE_CONV_2D_NOBIAS'}[kind]
    m = flatbuffer_utils.read_model_from_bytearray(bytearray(_single(base)))
    for op in m.subgraphs[0].operators:
      ins = [int(i) for i in op.inputs]
      while ins and ins[-1] == -1:
        ins.pop()
      op.inputs = ins
    return bytes(flatbuffer_utils.convert_object_to_bytearray(m))
  mb = skeletons.ModelBuilder()
  g = mb.subgraph()
  if kind in ('CONV_2D', 'DEPTHWISE_CONV_2D', 'TRANSPOSE_CONV',
              'CONV_2D_NOBIAS', 'DEPTHWISE_CONV_2D_NOBIAS',
              'TRANSPOSE_CONV_NOBIAS', 'TRANSPOSE_CONV_EMPTY_BIAS',
              'AVERAGE_POOL_2D', 'AVERAGE_POOL_2D_RELU',
              'AVERAGE_POOL_2D_RELU6'):
    x = g.input('x', (1, 2, 2, 2))
    y = {'CONV_2D': lambda: g.conv2d(x, 'y'),
         'DEPTHWISE_CONV_2D': lambda: g.dwconv2d(x, 'y'),
         'TRANSPOSE_CONV': lambda: g.transpose_conv(x, 'y'),
         'CONV_2D_NOBIAS': lambda: g.conv2d(x, 'y', bias=False),
         'DEPTHWISE_CONV_2D_NOBIAS': lambda: g.dwconv2d(x, 'y', bias=False),
         'TRANSPOSE_CONV_NOBIAS': lambda: g.transpose_conv(x, 'y', bias=False),
         'TRANSPOSE_CONV_EMPTY_BIAS': lambda: g.transpose_conv(
             x, 'y', bias='empty'),
         'AVERAGE_POOL_2D': lambda: g.avgpool(x, 'y'),
         'AVERAGE_POOL_2D_RELU': lambda: g.avgpool(x, 'y', fused=1),
         'AVERAGE_POOL_2D_RELU6': lambda: g.avgpool(x, 'y', fused=3)}[kind]()
    g.output(y)
  elif kind == 'EMBEDDING_LOOKUP':
    ids = g.input('ids', (2,), np.int32)
    g.output(g.embedding(ids, 'y'))
  elif kind in ('BMM_CONST', 'BMM_CONST_ADJY'):
    x = g.input('x', (1, 2, 2))
    g.output(g.bmm(x, None, 'y', adj_y=kind.endswith('ADJY'),
                   const_rhs_shape=(1, 2, 2)))
  elif kind == 'BMM':
    x = g.input('x', (1, 2, 2))
    z = g.input('z', (1, 2, 2))
    g.output(g.bmm(x, z, 'y'))
  else:
    x = g.input('x', (1, 2))
    if kind == 'FC':
      y = g.fc(x, 'y')
    elif kind == 'FC_RELU':
      y = g.fc(x, 'y', fused=1)
    elif kind == 'ADD_RELU6':
      z = g.input('z', (1, 2))
      y = g.binary('ADD', x, z, 'y', fused=3)
    elif kind == 'FC_NOBIAS':
      y = g.fc(x, 'y', bias=False)
    elif kind in ('ADD', 'SUB', 'MUL'):
      z = g.input('z', (1, 2))
      y = g.binary(kind, x, z, 'y')
    elif kind in ('ADD_CONST', 'SUB_CONST', 'MUL_CONST'):
      c = g.const('c', np.array([[0.5, -1.5]], np.float32))
      y = g.binary(kind[:3], x, c, 'y')
    elif kind in ('ADD_SAME', 'MUL_SAME'):
      y = g.binary(kind[:3], x, x, 'y')
    elif kind in ('TANH', 'LOGISTIC', 'SOFTMAX', 'GELU', 'RSQRT', 'RELU'):
      y = g.unary(kind, x, 'y')
    elif kind == 'RESHAPE':
      y = g.reshape(x, 'y', (2, 1))
    elif kind == 'TRANSPOSE':
      y = g.transpose(x, 'y')
    elif kind == 'MEAN':
      y = g.mean(x, 'y')
    elif kind == 'STRIDED_SLICE':
      y = g.strided_slice(x, 'y')
    elif kind == 'CONCATENATION':
      z = g.input('z', (1, 2))
      y = g.concat([x, z], 'y')
    elif kind == 'CONCAT_SAME':
      y = g.concat([x, x], 'y')
    elif kind == 'CONCAT_CONST2':
      c1 = g.const('c1', np.array([[0.5, -1.5]], np.float32))
      c2 = g.const('c2', np.array([[-0.75, 0.25, 1.0]], np.float32))
      y = g.concat([x, c1, c2], 'y')
    elif kind == 'FC_RUNTIME_WEIGHTS':
      # the filter is computed at run time (a second model input)
      w = g.input('w', (2, 2))
      y = g.fc(x, 'y', bias=False, w_idx=w)
    elif kind == 'FC_TINY_WEIGHTS':
      # tiny weights, ordinary bias: bias / (input scale * weight scale) is
      # far beyond the int32 range (int64 bias under 16-bit activations)
      y = g.fc(x, 'y', w=np.array([[2e-6, -1e-6], [1.5e-6, 0.5e-6]],
                                  np.float32))
    elif kind == 'FC_DEAD_CHANNEL':
      # a pruned unit: all-zero weight row, non-zero bias
      y = g.fc(x, 'y', w=np.array([[0.5, -1.0], [0.0, 0.0]], np.float32))
    elif kind == 'CONCAT_CONST':
      c = g.const('c', np.array([[0.5, -1.5]], np.float32))
      y = g.concat([x, c], 'y')
    elif kind == 'SPLIT':
      y0, y1 = g.split(x, ['y0', 'y1'])
      g.output(y0)
      y = y1
    elif kind == 'CAST':
      y = g.cast_to_int(x, 'y')
    else:
      raise ValueError(kind)
    g.output(y)
  return mb.build()


SINGLE_KINDS = ['FC', 'FC_NOBIAS', 'CONV_2D', 'DEPTHWISE_CONV_2D',
                'TRANSPOSE_CONV', 'BMM', 'BMM_CONST', 'BMM_CONST_ADJY',
                'EMBEDDING_LOOKUP', 'ADD', 'SUB', 'MUL', 'ADD_CONST',
                'MUL_CONST', 'MUL_SAME', 'ADD_SAME', 'RESHAPE', 'TRANSPOSE',
                'MEAN', 'STRIDED_SLICE', 'AVERAGE_POOL_2D', 'SOFTMAX',
                'LOGISTIC', 'TANH', 'GELU', 'RSQRT', 'CONCATENATION',
                'CONCAT_SAME', 'SPLIT', 'RELU', 'CAST', 'AVERAGE_POOL_2D_RELU',
                'AVERAGE_POOL_2D_RELU6', 'FC_RELU', 'ADD_RELU6', 'CONV_2D_NOBIAS',
                'DEPTHWISE_CONV_2D_NOBIAS', 'TRANSPOSE_CONV_NOBIAS',
                'TRANSPOSE_CONV_EMPTY_BIAS', 'CONCAT_CONST', 'CONCAT_CONST2',
                'FC_DEAD_CHANNEL', 'FC_RUNTIME_WEIGHTS', 'FC_2INPUTS',
                'CONV_2D_2INPUTS', 'DEPTHWISE_CONV_2D_2INPUTS', 'FC_TINY_WEIGHTS']


def _topologies():
  out = {}

  def add(name, f):
    mb = skeletons.ModelBuilder()
    g = mb.subgraph()
    f(mb, g)
    out[name] = mb.build()

  def chain_fc_tanh(mb, g):
    x = g.input('x', (1, 2))
    g.output(g.unary('TANH', g.fc(x, 'fc_out'), 'y'))
  add('chain_fc_tanh', chain_fc_tanh)

  def chain3(mb, g):
    x = g.input('x', (1, 2))
    a = g.fc(x, 'fc_out')
    b = g.reshape(a, 'rs_out', (2, 1))
    g.output(g.unary('SOFTMAX', b, 'y'))
  add('chain_fc_reshape_softmax', chain3)

  def chain_tanh_fc(mb, g):
    x = g.input('x', (1, 2))
    g.output(g.fc(g.unary('TANH', x, 't'), 'y'))
  add('chain_tanh_fc', chain_tanh_fc)

  def reshape2(mb, g):
    x = g.input('x', (1, 2))
    g.output(g.reshape(g.reshape(x, 'r1', (2, 1)), 'y', (1, 2)))
  add('chain_reshape_reshape', reshape2)

  def diamond(mb, g):
    x = g.input('x', (1, 2))
    a = g.unary('TANH', x, 'a')
    b = g.unary('LOGISTIC', x, 'b')
    g.output(g.binary('ADD', a, b, 'y'))
  add('diamond', diamond)

  def two_consumers(mb, g):
    x = g.input('x', (1, 2))
    t = g.unary('GELU', x, 't')
    g.output(g.fc(t, 'y1'))
    g.output(g.unary('TANH', t, 'y2'))
  add('tensor_2_consumers', two_consumers)

  def three_consumers(mb, g):
    x = g.input('x', (1, 2))
    t = g.fc(x, 't')
    g.output(g.unary('TANH', t, 'y1'))
    g.output(g.unary('LOGISTIC', t, 'y2'))
    g.output(g.unary('RELU', t, 'y3'))
  add('tensor_3_consumers', three_consumers)

  def mid_output(mb, g):
    x = g.input('x', (1, 2))
    a = g.fc(x, 'fc_out')
    g.output(g.unary('TANH', a, 'y'))
    g.output(a)
  add('intermediate_is_output', mid_output)

  def const_output(mb, g):
    # a constant returned directly from the signature next to a computed
    # output (anchor boxes, lookup tables)
    x = g.input('x', (1, 2))
    g.output(g.fc(x, 'y'))
    g.output(g.const('anchors', np.array([[0.5, -1.5, 2.0]], np.float32)))
  add('constant_is_output', const_output)

  def three_concats(mb, g):
    # one quantized tensor feeding three CONCATENATIONs of different range
    # (dense-block skip connections): three re-quantize ops on one tensor;
    # the other operands are constants to keep the number of symbolic scale
    # comparisons (and so of paths) small
    x = g.input('x', (1, 2))
    t = g.unary('TANH', x, 't')
    for k in (1, 2, 3):
      c = g.const(f'c{k}', np.array([[0.25 * k, -0.5 * k]], np.float32))
      g.output(g.concat([t, c], f'y{k}'))
  add('tensor_feeds_three_concats', three_concats)

  def stateful(mb, g):
    # an operator that keeps state in a variable tensor between invocations
    # (builtin RNN): calibration must reset it per sample
    x = g.input('x', (1, 2))
    h = g.rnn(x, 'h')
    c = g.const('c', np.array([[0.25, -0.5]], np.float32))
    g.output(g.binary('ADD', h, c, 'y'))
  add('stateful_variable_tensor', stateful)

  def weight_is_output(mb, g):
    # the weights of a quantized op are also returned from the model
    x = g.input('x', (1, 2))
    g.output(g.fc(x, 'y'))
    g.output([i for i, n in g.names.items() if n == 'y_w'][0])
  add('fc_weight_is_output', weight_is_output)

  def weight_shared_with_unsupported(mb, g):
    # one constant read by a quantizable op (as weights) and by an operator
    # the quantizer does not know (tied embedding / GATHER pattern)
    x = g.input('x', (1, 2))
    g.output(g.fc(x, 'y', bias=False))
    w = [i for i, n in g.names.items() if n == 'y_w'][0]
    g.output(g.unary('RELU', w, 'w_copy'))
  add('weight_shared_with_unsupported_op', weight_shared_with_unsupported)

  def mid_output_first(mb, g):
    x = g.input('x', (1, 2))
    a = g.fc(x, 'fc_out')
    g.output(a)
    g.output(g.unary('TANH', a, 'y'))
  add('intermediate_is_first_output', mid_output_first)

  def in_is_out(mb, g):
    x = g.input('x', (1, 2))
    g.output(x)
    g.output(g.unary('TANH', x, 'y'))
  add('input_is_output', in_is_out)

  def producer0(mb, g):
    x = g.input('x', (1, 2))
    t = g.unary('TANH', x, 't')
    u = g.unary('LOGISTIC', x, 'u')
    g.output(g.binary('ADD', t, u, 'y'))
  add('producer_at_index_0', producer0)

  def producer0_far(mb, g):
    x = g.input('x', (1, 2))
    t = g.fc(x, 't')
    u = g.unary('RELU', x, 'u')
    v = g.unary('GELU', u, 'v')
    g.output(g.binary('MUL', t, v, 'y'))
  add('producer_0_consumer_3', producer0_far)

  def square(mb, g):
    x = g.input('x', (1, 2))
    t = g.unary('TANH', x, 't')
    g.output(g.binary('MUL', t, t, 'y'))
  add('tanh_square', square)

  def concat_shared(mb, g):
    x = g.input('x', (1, 2))
    t = g.unary('TANH', x, 't')
    g.output(g.concat([t, t], 'y'))
  add('tanh_concat_same', concat_shared)

  def concat_and_other(mb, g):
    x = g.input('x', (1, 2))
    z = g.input('z', (1, 2))
    t = g.unary('GELU', x, 't')
    g.output(g.concat([t, z], 'y'))
    g.output(g.unary('TANH', t, 'y2'))
  add('tensor_feeds_concat_and_other', concat_and_other)

  def unsupported_between(mb, g):
    x = g.input('x', (1, 2))
    a = g.fc(x, 'fc1')
    b = g.unary('RELU', a, 'relu')
    g.output(g.fc(b, 'y'))
  add('unsupported_between', unsupported_between)

  def const_two_ops(mb, g):
    x = g.input('x', (1, 2))
    w = g.const('w_shared', np.array([[0.5, -1.0], [2.0, 0.25]], np.float32))
    a = g.fc(x, 'fc1', bias=False, w_idx=w)
    g.output(g.fc(a, 'y', bias=False, w_idx=w))
  add('const_shared_by_two_ops', const_two_ops)

  def buffer_two_tensors(mb, g):
    x = g.input('x', (1, 2))
    data = np.array([[0.5, -1.0], [2.0, 0.25]], np.float32)
    w1 = g.const('w1', data)
    w2 = g.const('w2', data, buffer=g.sg.tensors[w1].buffer)
    a = g.fc(x, 'fc1', bias=False, w_idx=w1)
    g.output(g.fc(a, 'y', bias=False, w_idx=w2))
  add('buffer_shared_by_two_tensors', buffer_two_tensors)

  def split_then(mb, g):
    x = g.input('x', (1, 4))
    a, b = g.split(x, ['s0', 's1'])
    g.output(g.binary('ADD', a, b, 'y'))
  add('split_add', split_then)

  def split_one_unused(mb, g):
    x = g.input('x', (1, 4))
    a, b = g.split(x, ['s0', 's1'])   # s1 is neither consumed nor exported
    g.output(g.unary('TANH', a, 'y'))
  add('split_one_result_unused', split_one_unused)

  def unused_input(mb, g):
    x = g.input('x', (1, 2))
    g.input('unused', (1, 2))
    g.output(g.fc(x, 'y'))
  add('unused_graph_input', unused_input)

  def dead_end_op(mb, g):
    x = g.input('x', (1, 2))
    a = g.fc(x, 'fc_out')
    g.unary('GELU', a, 'dead')        # result never used
    g.output(g.unary('TANH', a, 'y'))
  add('dead_end_operator', dead_end_op)

  def output_and_later_consumer(mb, g):
    x = g.input('x', (1, 2))
    z = g.input('z', (1, 2))
    t = g.fc(x, 't')
    u = g.fc(z, 'u')
    y = g.binary('ADD', t, u, 'y')
    g.output(t)
    g.output(y)
  add('output_and_later_consumer', output_and_later_consumer)

  def output_and_two_later_consumers(mb, g):
    x = g.input('x', (1, 2))
    t = g.unary('TANH', x, 't')
    u = g.unary('RELU', x, 'u')
    v = g.fc(u, 'v')
    w = g.binary('MUL', t, v, 'w')
    g.output(w)
    g.output(t)
    g.output(g.unary('GELU', t, 'y'))
  add('output_and_two_later_consumers', output_and_two_later_consumers)

  def softmax_reshape(mb, g):
    x = g.input('x', (1, 2))
    g.output(g.reshape(g.unary('SOFTMAX', x, 'sm'), 'y', (2, 1)))
  add('softmax_reshape', softmax_reshape)

  def fc_fc(mb, g):
    x = g.input('x', (1, 2))
    g.output(g.fc(g.fc(x, 'fc1'), 'y'))
  add('fc_fc', fc_fc)

  # two subgraphs / signatures
  def two_sigs(share, reorder=False):
    mb = skeletons.ModelBuilder()
    g1 = mb.subgraph('g1')
    x = g1.input('x1', (1, 2))
    data = np.array([[0.5, -1.0], [2.0, 0.25]], np.float32)
    w1 = g1.const('w_a', data)
    g1.output(g1.unary('TANH', g1.fc(x, 'fc_a', bias=False, w_idx=w1), 'y_a'))
    g2 = mb.subgraph('g2')
    x2 = g2.input('x2', (1, 2))
    if share:
      w2 = g2.const('w_b', data, buffer=g1.sg.tensors[w1].buffer)
    else:
      w2 = g2.const('w_b', data * 2)
    t = g2.unary('GELU', x2, 'gelu_b')
    g2.output(g2.fc(t, 'y_b', bias=False, w_idx=w2))
    if reorder:
      # the order of the signature table need not follow the subgraph indices
      mb.signature('second', g2, ['x'], ['y'])
      mb.signature('first', g1, ['x'], ['y'])
    else:
      mb.signature('first', g1, ['x'], ['y'])
      mb.signature('second', g2, ['x'], ['y'])
    return mb.build()
  out['two_subgraphs_independent'] = two_sigs(False)
  out['two_subgraphs_shared_buffer'] = two_sigs(True)
  out['two_subgraphs_signatures_reordered'] = two_sigs(False, reorder=True)

  def same_constant_name():
    # valid flatbuffer whose two subgraphs each have a constant called 'w'
    # (names are only unique per subgraph in the schema)
    mb = skeletons.ModelBuilder()
    g1 = mb.subgraph('g1')
    x = g1.input('x1', (1, 2))
    w1 = g1.const('w', np.array([[0.5, -1.0], [2.0, 0.25]], np.float32))
    g1.output(g1.fc(x, 'y_a', bias=False, w_idx=w1))
    g2 = mb.subgraph('g2')
    x2 = g2.input('x2', (1, 2))
    mb.all_names.discard('w')
    w2 = g2.const('w', np.array([[1.5, 3.0], [-2.0, 0.75]], np.float32))
    g2.output(g2.fc(g2.unary('GELU', x2, 'gelu_b'), 'y_b', bias=False,
                    w_idx=w2))
    mb.signature('first', g1, ['x'], ['y'])
    mb.signature('second', g2, ['x'], ['y'])
    return mb.build()
  out['two_subgraphs_same_constant_name'] = same_constant_name()

  def legacy_opcodes():
    # pre-TF-2.4 encoding of operator codes: the real op in
    # deprecated_builtin_code, builtin_code left 0
    mb = skeletons.ModelBuilder()
    g = mb.subgraph()
    x = g.input('x', (1, 2))
    g.output(g.unary('TANH', g.fc(x, 't'), 'y'))
    m = flatbuffer_utils.read_model_from_bytearray(bytearray(mb.build()))
    for oc in m.operatorCodes:
      oc.deprecatedBuiltinCode = oc.builtinCode
      oc.builtinCode = 0
    return bytes(flatbuffer_utils.convert_object_to_bytearray(m))
  out['legacy_operator_codes'] = legacy_opcodes()

  def same_constant_name_nonadjacent():
    mb = skeletons.ModelBuilder()
    for k, data in enumerate(([[0.5, -1.0], [2.0, 0.25]], None,
                              [[1.5, 3.0], [-2.0, 0.75]])):
      g = mb.subgraph(f'g{k}')
      x = g.input(f'x{k}', (1, 2))
      if data is None:
        g.output(g.unary('TANH', g.fc(x, f'fc{k}'), f'y{k}'))
      else:
        mb.all_names.discard('w')
        w = g.const('w', np.array(data, np.float32))
        g.output(g.fc(x, f'y{k}', bias=False, w_idx=w))
      mb.signature(f'sig{k}', g, ['x'], ['y'])
    return mb.build()
  out['three_subgraphs_same_constant_name_nonadjacent'] = \
      same_constant_name_nonadjacent()

  def acts_share_empty_buffer():
    # every activation points at ONE data-less buffer with a non-zero index
    # (what a buffer de-duplication pass produces)
    mb = skeletons.ModelBuilder()
    g = mb.subgraph()
    x = g.input('x', (1, 2))
    t = g.fc(x, 't')
    g.output(g.unary('TANH', t, 'y'))
    shared = g.sg.tensors[x].buffer
    for i in (t, g.sg.outputs[0]):
      g.sg.tensors[i].buffer = shared
    return mb.build()
  out['activations_share_empty_buffer'] = acts_share_empty_buffer()
  return out


def random_dag(rng, n_ops, idx, sfx='', mb=None, build=True):
  """A random DAG over a representative kind table (weights+bias, fixed
  range, same-as-input, same-as-output, binary elementwise, unsupported op,
  two outputs), every tensor of shape (1, 2k); random set of graph outputs that
  contains the sinks."""
  mb = mb or skeletons.ModelBuilder()
  g = mb.subgraph('g' + sfx)
  avail = [g.input('x' + sfx, (1, 2))]
  if rng.random() < 0.5:
    avail.append(g.input('z' + sfx, (1, 2)))
  consumed = set()
  kinds = ['FC', 'TANH', 'LOGISTIC', 'SOFTMAX', 'RESHAPE', 'CONCAT', 'ADD',
           'MUL', 'RELU', 'SPLIT', 'GELU', 'MEAN']
  for k in range(n_ops):
    kind = kinds[int(rng.integers(len(kinds)))]
    a = avail[int(rng.integers(len(avail)))]
    nm = f't{k}{sfx}'
    if kind == 'FC':
      outs = [g.fc(a, nm, units=2, bias=bool(rng.integers(2)))]
    elif kind in ('TANH', 'LOGISTIC', 'SOFTMAX', 'RELU', 'GELU'):
      outs = [g.unary(kind, a, nm)]
    elif kind == 'RESHAPE':
      outs = [g.reshape(a, nm, g.shapes[a])]
    elif kind == 'MEAN':
      outs = [g.mean(a, nm, axis=0)]
    elif kind == 'SPLIT':
      if g.shapes[a][-1] % 2:
        outs = [g.unary('TANH', a, nm)]
      else:
        outs = g.split(a, [nm + 'a', nm + 'b'])
    else:
      same = [t for t in avail if g.shapes[t] == g.shapes[a]]
      b = same[int(rng.integers(len(same)))]
      consumed.add(b)
      if kind == 'CONCAT':
        outs = [g.concat([a, b], nm)]
      else:
        outs = [g.binary(kind, a, b, nm)]
    consumed.add(a)
    avail += outs
  ops_out = [t for t in avail if t not in g.sg.inputs]
  sinks = [t for t in ops_out if t not in consumed]
  extra = [t for t in avail if t not in sinks and rng.random() < 0.25]
  outs = sinks + extra
  rng.shuffle(outs)
  for t in outs:
    g.output(t)
  return mb.build() if build else g


def random_dag_family(seed, n):
  import numpy as _np
  rng = _np.random.default_rng(seed)
  fam = {}
  for i in range(n):
    n_ops = int(rng.integers(2, 6))
    try:
      fam[f'dag{seed}_{i}_{n_ops}ops'] = random_dag(rng, n_ops, i)
    except Exception:  # pylint: disable=broad-except
      continue
  return fam


_CACHE = {}
N_RANDOM_DAGS = 1200


def skeleton_family(tier, seed=None):
  if 'fam' not in _CACHE:
    fam = {}
    for k in SINGLE_KINDS:
      fam['single_' + k] = _single(k)
    fam.update(_topologies())
    _CACHE['fam'] = fam
  if tier == 'thorough_dags':
    import os as _os
    sd = int(_os.environ.get('VERIF_SEED', '0')) if seed is None else seed
    key = ('dags', sd)
    if key not in _CACHE:
      _CACHE[key] = random_dag_family(sd, N_RANDOM_DAGS)
    return _CACHE[key]
  return _CACHE['fam']


# ---------------------------------------------------------------------------
# recipes
# ---------------------------------------------------------------------------
def _cfg(mode):
  W8 = dict(num_bits=8, symmetric=True, granularity='CHANNELWISE', dtype='INT',
            block_size=0)
  if mode == 'SRQ8':
    return dict(activation_tensor_config=dict(
        num_bits=8, symmetric=False, granularity='TENSORWISE', dtype='INT',
        block_size=0), weight_tensor_config=W8, compute_precision='INTEGER',
                explicit_dequantize=False, skip_checks=False)
  if mode == 'SRQ16':
    return dict(activation_tensor_config=dict(
        num_bits=16, symmetric=True, granularity='TENSORWISE', dtype='INT',
        block_size=0), weight_tensor_config=W8, compute_precision='INTEGER',
                explicit_dequantize=False, skip_checks=False)
  if mode == 'DRQ':
    return dict(weight_tensor_config=W8, compute_precision='INTEGER',
                explicit_dequantize=False, skip_checks=False)
  if mode == 'WO':
    return dict(weight_tensor_config=W8, compute_precision='FLOAT',
                explicit_dequantize=True, skip_checks=False)
  if mode == 'WO4':
    return dict(weight_tensor_config=dict(W8, num_bits=4, granularity='TENSORWISE'),
                compute_precision='FLOAT', explicit_dequantize=True,
                skip_checks=False)
  if mode == 'FP16':
    return dict(weight_tensor_config=dict(
        num_bits=16, symmetric=True, granularity='TENSORWISE', dtype='FLOAT',
        block_size=0), compute_precision='FLOAT', explicit_dequantize=True,
                skip_checks=False)
  raise ValueError(mode)


def blockwise_cases():
  """FULLY_CONNECTED variants (rank-3 input, with/without bias, with/without
  fused RELU) x blockwise weight recipes (accepted with skip_checks; the
  emulated-subchannel rewrite): name -> (model bytes, recipe)."""
  out = {}
  for bias in (True, False):
    for fused in (0, 1):
      mb = skeletons.ModelBuilder()
      g = mb.subgraph()
      x = g.input('x', (1, 2, 4))
      g.output(g.fc(x, 'y', units=2, bias=bias, fused=fused))
      # as the converter writes it: every tensor has a (blank) quantization
      # table (the emulated-subchannel rewrite relies on it)
      from ai_edge_litert import schema_py_generated as S_
      for t in g.sg.tensors:
        t.quantization = S_.QuantizationParametersT()
      mbytes = mb.build()
      for bits in (8, 4):
        cfg = dict(weight_tensor_config=dict(
            num_bits=bits, symmetric=True, granularity='BLOCKWISE',
            dtype='INT', block_size=2), compute_precision='FLOAT',
                   explicit_dequantize=True, skip_checks=True)
        name = (f'blockwise_fc_{"bias" if bias else "nobias"}_'
                f'{"relu" if fused else "none"}_w{bits}')
        out[name] = (mbytes, [dict(regex='.*', operation='FULLY_CONNECTED',
                                   algorithm_key=ALG_MM, op_config=cfg)])
  return out


def rule(regex, op, mode):
  if mode == 'NOQ':
    return dict(regex=regex, operation=op, algorithm_key='no_quantize',
                op_config={})
  return dict(regex=regex, operation=op,
              algorithm_key='float_casting' if mode == 'FP16' else ALG_MM,
              op_config=_cfg(mode))


def op_scopes(model):
  """(subgraph, op index, scope string, op name or None)."""
  res = []
  for si, sg in enumerate(model.subgraphs):
    for oi, op in enumerate(sg.operators):
      scope = ''.join(oracles.tname(sg.tensors[o]) + ';' for o in op.outputs
                      if o != -1)
      code = model.operatorCodes[op.opcodeIndex].builtinCode
      res.append((si, oi, scope,
                  tfl_flatbuffer_utils.TFL_OP_CODE_TO_NAME.get(code)))
  return res


def recipe_family(model_bytes, tier, shipped_only=False):
  fam = {}
  for f in SHIPPED:
    with open(os.path.join(RECIPE_DIR, f)) as fh:
      fam['shipped:' + f] = json.load(fh)
  fam['shipped:recipe.dynamic_wi8_afp32()'] = recipe_lib.dynamic_wi8_afp32()
  if shipped_only:
    return fam
  model = flatbuffer_utils.read_model_from_bytearray(bytearray(model_bytes))
  fam['all:FP16'] = [rule('.*', '*', 'FP16')]
  fam['all:SRQ16'] = [rule('.*', '*', 'SRQ16')]
  scopes = op_scopes(model)
  for si, oi, scope, name in scopes:
    rx = '^' + re.escape(scope) + '$'
    tag = f'sg{si}op{oi}'
    fam[f'only:{tag}:SRQ8'] = [rule(rx, '*', 'SRQ8')]
    if name in ('FULLY_CONNECTED', 'CONV_2D', 'DEPTHWISE_CONV_2D',
                'CONV_2D_TRANSPOSE', 'BATCH_MATMUL', 'EMBEDDING_LOOKUP'):
      fam[f'only:{tag}:WO'] = [rule(rx, '*', 'WO')]
      fam[f'only:{tag}:DRQ'] = [rule(rx, '*', 'DRQ')]
    if len(scopes) > 1:
      fam[f'allbut:{tag}:SRQ8'] = [rule('.*', '*', 'SRQ8'),
                                   rule(rx, '*', 'NOQ')]
      if tier == 'thorough':
        fam[f'allbut:{tag}:SRQ16'] = [rule('.*', '*', 'SRQ16'),
                                      rule(rx, '*', 'NOQ')]
        fam[f'mixed:{tag}:SRQ8+WO'] = [rule('.*', '*', 'WO'),
                                       rule(rx, '*', 'SRQ8')]
  wops = [(si, oi, scope) for si, oi, scope, name in scopes
          if name in ('FULLY_CONNECTED', 'CONV_2D', 'BATCH_MATMUL',
                      'EMBEDDING_LOOKUP')]
  if len(wops) >= 2:
    # two weight ops in different quantized modes (they may read one tensor)
    r0 = '^' + re.escape(wops[0][2]) + '$'
    r1 = '^' + re.escape(wops[1][2]) + '$'
    for m0, m1 in (('WO', 'WO4'), ('DRQ', 'WO4'), ('FP16', 'WO'),
                   ('WO', 'DRQ')):
      fam[f'pair:{m0}+{m1}'] = [rule(r0, '*', m0), rule(r1, '*', m1)]
  # an earlier static-range rule, then a catch-all the activation-only ops
  # cannot take (they keep the earlier rule)
  fam['srq8_then_catchall_WO'] = [rule('(.*)', '*', 'SRQ8'),
                                  rule('.*', '*', 'WO')]
  if len(scopes) > 1:
    fam['srq8_ops_only_no_io'] = [rule('^(?!$).*', '*', 'SRQ8')]
    # operator-type rules (every op of one type, nothing else)
    for name in sorted({n for _, _, _, n in scopes if n}):
      fam[f'optype:{name}:SRQ8'] = [rule('.*', name, 'SRQ8')]
      if name in ('FULLY_CONNECTED', 'CONV_2D', 'BATCH_MATMUL',
                  'EMBEDDING_LOOKUP'):
        fam[f'optype:{name}:WO'] = [rule('.*', name, 'WO')]
  return fam


# ---------------------------------------------------------------------------
# the symbolic pipeline run
# ---------------------------------------------------------------------------
class Outcome:

  def __init__(self):
    self.raised = None       # exception instance
    self.model = None        # captured ModelT
    self.params = None
    self.input_model = None
    self.qsv_vars = {}


def runtime_float_tensors(model):
  res = []
  for si, sg in enumerate(model.subgraphs):
    for ti, t in enumerate(sg.tensors):
      if t.type == 0 and not oracles.has_data(model, t):
        res.append((si, ti, oracles.tname(t), (0 if t.shape is None else len(t.shape))))
  return res


def symbolic_qsvs(e, model, backend_name):
  qsvs = {}
  for si, ti, name, rank in runtime_float_tensors(model):
    shp = (1,) * rank
    mn = SymArray.fresh(f'min_s{si}_t{ti}', shp, np.float32)
    mx = SymArray.fresh(f'max_s{si}_t{ti}', shp, np.float32)
    a, b = mn.el[0], mx.el[0]
    fin = lambda t: z3.Not(z3.Or(z3.fpIsNaN(t), z3.fpIsInf(t)))
    # leaves keep their real floating-point sort in every back end
    e.assume(z3.And(fin(a), fin(b), z3.fpLEQ(a, b)))
    qsvs[name] = {'min': mn, 'max': mx}
  return qsvs


def constant_stats_under(model_bytes, recipe):
  """Statistics of the constants as calibrate() records them under `recipe`
  (real Calibrator initialisation; concrete)."""
  from ai_edge_quantizer import calibrator as calibrator_lib
  rm = recipe_manager.RecipeManager()
  rm.load_quantization_recipe(copy.deepcopy(recipe))
  cal = calibrator_lib.Calibrator(bytes(model_bytes))
  cal._initialize_model_qsvs(rm)
  return {k: v for k, v in cal.get_model_qsvs().items() if v}


def run_pipeline(e, model_bytes, recipe, backend='UF', qsvs=None,
                 history=None, const_stats_recipe=None):
  be = symnp.set_backend(B.UF() if backend == 'UF' else B.Bits())
  be.reset()
  out = Outcome()
  out.input_model = flatbuffer_utils.read_model_from_bytearray(
      bytearray(model_bytes))
  # through the public facade: Quantizer builds the RecipeManager, loads /
  # updates the recipe and runs ParamsGenerator and ModelModifier
  # the rule list in force: with a past, the earlier rules followed by the
  # final ones (a fresh manager loading that list is the reference, C11)
  out.recipe = [r for past in (history or []) for r in past] + list(recipe)
  try:
    q = quantizer_lib.Quantizer(bytes(model_bytes), None)
    rm = q._recipe_manager
    if history:
      # the Quantizer has a past: earlier rules were added and RESOLVED (as a
      # previous quantize()/calibrate() on the same object does), then the
      # final recipe is entered through update calls
      for past in history:
        for r in copy.deepcopy(past):
          q.update_quantization_recipe(
              r['regex'], r['operation'],
              qtyping.OpQuantizationConfig.from_dict(r['op_config'])
              if r.get('op_config') else None, r['algorithm_key'])
        for si, oi, scope, name in op_scopes(out.input_model):
          if name is not None:
            rm.get_quantization_configs(qtyping.TFLOperationName(name), scope)
        # ... and quantize() was called with that recipe on this object
        try:
          past_qsvs = concrete_qsvs(out.input_model, None) \
              if rm.need_calibration() else None
          with np.errstate(all='ignore'):
            q.quantize(past_qsvs)
        except Exception:  # pylint: disable=broad-except
          pass
      for r in copy.deepcopy(recipe):
        q.update_quantization_recipe(
            r['regex'], r['operation'],
            qtyping.OpQuantizationConfig.from_dict(r['op_config'])
            if r.get('op_config') else None, r['algorithm_key'])
    else:
      q.load_quantization_recipe(copy.deepcopy(recipe))
    rm = q._recipe_manager
  except Exception as ex:  # pylint: disable=broad-except
    out.raised = ex
    out.stage = 'load_recipe'
    return out
  out.recipe_manager = rm
  if qsvs is None:
    qsvs = symbolic_qsvs(e, out.input_model, backend) if rm.need_calibration() else None
  if const_stats_recipe is not None and qsvs is not None:
    # the calibration result was produced under ANOTHER recipe: it carries
    # the constants' statistics as that recipe's granularity shaped them
    for k, v in constant_stats_under(model_bytes, const_stats_recipe).items():
      qsvs.setdefault(k, v)
  out.qsvs = qsvs
  captured = []

  def capture(m):
    captured.append(m)
    return bytearray(b'captured')

  stub = types.SimpleNamespace(
      read_model_from_bytearray=flatbuffer_utils.read_model_from_bytearray,
      convert_object_to_bytearray=capture)
  inner = q._get_quantization_params

  def keep_params(calibration_result=None):
    out.params = inner(calibration_result)
    out.stage = 'modify'
    return out.params
  q._get_quantization_params = keep_params
  with patch.symbolic_numpy(), patch.rebind(
      'ai_edge_quantizer.model_modifier', 'flatbuffer_utils', stub):
    try:
      out.stage = 'params'
      if not recipe:
        # quantize() refuses an empty recipe by contract; the pipeline below
        # it is still exercised
        model_modifier.ModelModifier(model_bytes).modify_model(
            keep_params(qsvs))
      else:
        q.quantize(qsvs)
      out.model = captured[0]
      out.stage = 'done'
    except Inconclusive:
      raise
    except Exception as ex:  # pylint: disable=broad-except
      out.raised = ex
  return out


def fresh_manager(out):
  """A fresh RecipeManager holding the final recipe: what the rules select is
  a pure function of the rule list (C11), whatever the past of the manager
  that was used for the run."""
  rec = getattr(out, 'recipe', None)
  if rec is None:
    return out.recipe_manager
  rm = recipe_manager.RecipeManager()
  rm.load_quantization_recipe(copy.deepcopy(rec))
  return rm


def resolver(out):
  """(subgraph, op) -> resolved (algorithm, config) via a fresh real manager."""
  scopes = {(si, oi): (scope, name)
            for si, oi, scope, name in op_scopes(out.input_model)}
  rm = fresh_manager(out)

  def resolve(si, oi):
    scope, name = scopes[(si, oi)]
    if name is None:
      return None
    return rm.get_quantization_configs(qtyping.TFLOperationName(name), scope)
  return resolve


def io_quantized(out):
  res = {}
  m = out.input_model
  frm = fresh_manager(out)
  for si, sg in enumerate(m.subgraphs):
    for kind, lst in (('INPUT', sg.inputs), ('OUTPUT', sg.outputs)):
      # the virtual INPUT op outputs the graph inputs; the virtual OUTPUT op
      # has no outputs, hence the empty scope
      scope = ''.join(oracles.tname(sg.tensors[i]) + ';' for i in lst) \
          if kind == 'INPUT' else ''
      alg, cfg = frm.get_quantization_configs(
          qtyping.TFLOperationName(kind), scope)
      res[(si, kind)] = oracles.mode_of((alg, cfg)) == 'SRQ'
  return res


# ---------------------------------------------------------------------------
# generic job: explore (UF) -> concretise (BITS) -> candidate
# ---------------------------------------------------------------------------
def explore_case(skel, rname, model_bytes, recipe, oracle_fn, max_paths=3000,
                 wall_s=120, history=None, const_stats_recipe=None):
  """oracle_fn(e, out) issues e.check(...) calls with concrete bools."""

  def harness_for(backend):
    def h(e):
      out = run_pipeline(e, model_bytes, recipe, backend, history=history,
                         const_stats_recipe=const_stats_recipe)
      e.reach('pipeline')
      oracle_fn(e, out)
    return h

  en = Engine(solver_timeout_ms=20000, max_paths=max_paths,
              wall_budget_s=wall_s, max_decisions=400)
  en.explore(harness_for('UF'))
  cands = []
  seen = set()
  for v in en.violations:
    key = (v.name, str(v.info)[:200])
    if key in seen:
      continue
    seen.add(key)
    status, vals = Engine(solver_timeout_ms=60000).concretize(
        harness_for('BITS'), v, timeout_ms=60000)
    data = {'skeleton': skel, 'recipe': rname, 'info': v.info,
            'concretize': status, 'history': history,
            'const_stats_recipe': const_stats_recipe}
    if status == 'sat':
      data['stats'] = {k: z3val_to_py(x) for k, x in vals.items()}
    else:
      # no bit-precise witness (alignment of the two runs is heuristic): the
      # statistics of the exploring model are tried in the replay; with
      # status 'unsat' a non-reproducing replay is dropped, otherwise it makes
      # the run inconclusive

      data['stats'] = {k: z3val_to_py(x) for k, x in v.model_values.items()}
    cands.append(Candidate(v.name, data))
  return en, cands


def concrete_qsvs(model, stats):
  qsvs = {}
  for si, ti, name, rank in runtime_float_tensors(model):
    shp = (1,) * rank
    kmin, kmax = f'min_s{si}_t{ti}', f'max_s{si}_t{ti}'
    if shp:
      kmin += '_0'
      kmax += '_0'
    if stats and kmin in stats:
      mn = np.float32(fpbits_to_float(stats[kmin]))
      mx = np.float32(fpbits_to_float(stats[kmax]))
    else:
      mn, mx = np.float32(-1.0 - 0.01 * ti), np.float32(1.5 + 0.02 * ti)
    if not (np.isfinite(mn) and np.isfinite(mx) and mn <= mx):
      mn, mx = np.float32(-1.0), np.float32(1.0)
    qsvs[name] = {'min': np.full(shp, mn, np.float32),
                  'max': np.full(shp, mx, np.float32)}
  return qsvs


def variant_model(model_bytes):
  """Same graph, tensor names, shapes, buffer indices - other float weights
  (a second checkpoint of the same architecture)."""
  m = flatbuffer_utils.read_model_from_bytearray(bytearray(model_bytes))
  done = set()
  for sg in m.subgraphs:
    for t in sg.tensors:
      b = m.buffers[t.buffer]
      if t.type != 0 or b.data is None or len(b.data) == 0 or \
          t.buffer in done:
        continue
      done.add(t.buffer)
      a = np.frombuffer(bytes(bytearray(b.data)), dtype=np.float32)
      a = (a * np.float32(3.0) + np.float32(0.25)).astype(np.float32)
      b.data = np.frombuffer(a.tobytes(), dtype=np.uint8)
  return bytes(flatbuffer_utils.convert_object_to_bytearray(m))


def model_bytes_of(skel, tier='thorough'):
  """Skeleton bytes by name (curated family or seeded random DAG)."""
  if skel.startswith('dag'):
    return skeleton_family('thorough_dags', int(skel[3:].split('_')[0]))[skel]
  return skeleton_family(tier)[skel]


def replay_public(skel, rname, stats, tier='thorough', history=None):
  """Runs the public API concretely. Returns (outcome dict)."""
  if skel.startswith('blockwise_fc_'):
    model_bytes, recipe = blockwise_cases()[skel]
    return _replay_with(model_bytes, recipe, stats, history)
  if skel.startswith('dag'):
    fam = skeleton_family('thorough_dags', int(skel[3:].split('_')[0]))
  else:
    fam = skeleton_family(tier)
  model_bytes = fam[skel]
  recipe = recipe_family(model_bytes, 'thorough')[rname]
  return _replay_with(model_bytes, recipe, stats, history)


def _replay_with(model_bytes, recipe, stats, history=None):
  inp = flatbuffer_utils.read_model_from_bytearray(bytearray(model_bytes))
  if history:
    # same past through the public API: quantize with the earlier recipes on
    # this Quantizer, then enter the final recipe with update calls
    q = quantizer_lib.Quantizer(model_bytes, None)
    for past in history:
      for r in copy.deepcopy(past):
        q.update_quantization_recipe(
            r['regex'], r['operation'],
            qtyping.OpQuantizationConfig.from_dict(r['op_config'])
            if r.get('op_config') else None, r['algorithm_key'])
      try:
        with np.errstate(all='ignore'):
          q.quantize(concrete_qsvs(inp, stats) if q.need_calibration else None)
      except Exception:  # pylint: disable=broad-except
        pass
    for r in copy.deepcopy(recipe):
      q.update_quantization_recipe(
          r['regex'], r['operation'],
          qtyping.OpQuantizationConfig.from_dict(r['op_config'])
          if r.get('op_config') else None, r['algorithm_key'])
  else:
    q = quantizer_lib.Quantizer(model_bytes, copy.deepcopy(recipe))
  qsvs = concrete_qsvs(inp, stats) if q.need_calibration else None
  res = {'input_model': inp, 'recipe': recipe, 'quantizer': q}
  try:
    with np.errstate(all='ignore'):
      r = q.quantize(qsvs)
    res['bytes'] = bytes(r.quantized_model)
    res['model'] = flatbuffer_utils.read_model_from_bytearray(
        bytearray(r.quantized_model))
    res['raised'] = None
  except Exception as ex:  # pylint: disable=broad-except
    res['raised'] = ex
  out = Outcome()
  out.input_model = inp
  out.recipe_manager = q._recipe_manager
  out.recipe = recipe
  out.model = res.get('model')
  out.raised = res['raised']
  res['outcome'] = out
  return res
