"""Shared runner: jobs -> workers -> replay -> known findings -> evidence."""
from __future__ import annotations

import dataclasses
import hashlib
import importlib
import inspect
import json
import multiprocessing as mp
import os
import sys
import time
import traceback

VERIF = os.path.dirname(os.path.dirname(os.path.abspath(__file__)))
OUT = os.path.join(VERIF, 'out')
REPLAYS = os.path.join(OUT, 'replays')
EVIDENCE = os.path.join(VERIF, 'evidence')
KNOWN = os.path.join(VERIF, 'known_findings.json')

EXIT_OK, EXIT_VIOLATION, EXIT_INCONCLUSIVE = 0, 1, 2


@dataclasses.dataclass
class Candidate:
  """A solver counterexample, JSON-able, to be replayed on the real code."""
  obligation: str
  data: dict
  job: str = ''
  note: str = ''


@dataclasses.dataclass
class JobResult:
  job: str
  stats: dict
  candidates: list
  inconclusive: list
  obligations: dict  # obligation id -> {'checked': n, 'discharged': n}
  samples: list = dataclasses.field(default_factory=list)
  wall_s: float = 0.0
  error: str = ''


@dataclasses.dataclass
class Job:
  name: str
  fn: object  # callable(job) -> JobResult
  args: dict = dataclasses.field(default_factory=dict)


_COVER = set()


def _cover_tracer(frame, event, arg):
  # development aid (VERIF_COVER=<dir>): which lines of /repo's library the
  # jobs execute; not used by any registered command
  fn = frame.f_code.co_filename
  if not fn.startswith('/repo/ai_edge_quantizer') or fn.endswith('_test.py'):
    return None

  def local(frame, event, arg):
    if event == 'line':
      _COVER.add((fn, frame.f_lineno))
    return local
  _COVER.add((fn, frame.f_lineno))
  return local


def _run_job(job: Job) -> JobResult:
  t0 = time.time()
  cover = os.environ.get('VERIF_COVER')
  if cover:
    sys.settrace(_cover_tracer)
  try:
    r = job.fn(job)
  except BaseException as e:  # pylint: disable=broad-except
    r = JobResult(job.name, {}, [], [f'harness error: {type(e).__name__}: {e}'],
                  {}, error=traceback.format_exc())
  finally:
    if cover:
      sys.settrace(None)
      import json as _json
      os.makedirs(cover, exist_ok=True)
      with open(os.path.join(cover, f'{os.getpid()}_{abs(hash(job.name))}.json'),
                'w') as f:
        _json.dump(sorted(_COVER), f)
  r.wall_s = round(time.time() - t0, 3)
  return r


def run_jobs(jobs, nproc=None):
  nproc = nproc or int(os.environ.get('VERIF_NPROC', '16'))
  if nproc <= 1 or len(jobs) <= 1:
    return [_run_job(j) for j in jobs]
  ctx = mp.get_context('fork')
  with ctx.Pool(min(nproc, len(jobs)), maxtasksperchild=8) as pool:
    return pool.map(_run_job, jobs, chunksize=1)


def result_from_engines(job_name, engines, to_candidate, extra_samples=None):
  """Collects one or more Engine runs of a job into a JobResult."""
  from symx.core import Stats
  st = Stats()
  cands, inconc, obl = [], [], {}
  for tag, en in engines:
    st.merge(en.stats)
    for v in en.violations:
      c = to_candidate(tag, v)
      if c is not None:
        c.job = job_name
        cands.append(c)
    inconc += [f'{tag}: {x}' for x in en.inconclusive]
  d = st.as_dict()
  return JobResult(job_name, d, cands, inconc, obl,
                   samples=(extra_samples or [])[:3])


def source_hashes(funcs):
  out = {}
  for f in funcs:
    try:
      src = inspect.getsource(f)
      name = f'{f.__module__}.{f.__qualname__}'
      out[name] = hashlib.sha256(src.encode()).hexdigest()[:12]
    except (OSError, TypeError):
      out[getattr(f, '__name__', str(f))] = 'n/a'
  return out


def load_known():
  if not os.path.exists(KNOWN):
    return []
  with open(KNOWN) as f:
    return json.load(f)['findings']


def match_known(prop, obligation, witness_class):
  for k in load_known():
    if (k.get('property') == prop and k.get('status') == 'known'
        and k.get('obligation') == obligation
        and k.get('witness_class') == witness_class):
      return k
  return None


def write_replay(prop, n, payload):
  os.makedirs(REPLAYS, exist_ok=True)
  p = os.path.join(REPLAYS, f'{prop}-{n}.json')
  with open(p, 'w') as f:
    json.dump(payload, f, indent=1, default=str)
  return p


def write_evidence(prop, tier, seed, level, coverage, assumptions, wall_s,
                   violations, extra=None):
  os.makedirs(EVIDENCE, exist_ok=True)
  ev = {
      'property_id': prop,
      'tier': tier,
      'seed': seed,
      'level': level,
      'coverage': coverage,
      'assumptions': assumptions,
      'wall_s': round(wall_s, 2),
      'violations': violations,
  }
  if extra:
    ev.update(extra)
  with open(os.path.join(EVIDENCE, f'{prop}.json'), 'w') as f:
    json.dump(ev, f, indent=1, default=str)
  return ev


class PropertyRun:
  """Drives one property check end to end.

  A property module provides:
    PROP, LEVEL ('proof'|'model_checking'), FUNCS (list of repo functions
    executed symbolically), ASSUMPTIONS, BOUNDS (dict per tier),
    jobs(tier, seed) -> list[Job]
    replay(candidate: dict) -> (reproduces: bool, witness_class: str, what: str)
    selftest(tier) -> (n_validated:int, errors:list[str])     [optional]
  """

  def __init__(self, mod):
    self.mod = mod
    self.prop = mod.PROP

  def run(self, tier, seed):
    mod = self.mod
    t0 = time.time()
    st_n, st_err = (0, [])
    if hasattr(mod, 'selftest'):
      st_n, st_err = mod.selftest(tier)
    elif getattr(mod, 'USES_SHIM', True):
      # translator validation: shim vs real NumPy, bit for bit
      from symx import selftest as _st
      st_n, st_err = _st.check_shim(seed)
      if getattr(mod, 'USES_FAKE_INTERPRETER', False):
        n2, e2 = _st.check_fake_interpreter()
        st_n += n2
        st_err += e2
      st_err = [f'translator validation failed: {x}' for x in st_err]
    jobs = mod.jobs(tier, seed)
    results = run_jobs(jobs)
    inconclusive = list(st_err)
    cands = []
    tot = {}
    per_job = []
    samples = []
    for r in results:
      if r.error:
        inconclusive.append(f'{r.job}: {r.inconclusive[0]}')
        sys.stderr.write(r.error)
      else:
        inconclusive += [f'{r.job}: {x}' for x in r.inconclusive]
      for k, v in r.stats.items():
        if isinstance(v, (int, float)):
          tot[k] = tot.get(k, 0) + v
      cands += r.candidates
      samples += r.samples
      per_job.append({'job': r.job, 'wall_s': r.wall_s,
                      'paths': r.stats.get('paths', 0),
                      'obligations': r.stats.get('obligations', 0),
                      'discharged': r.stats.get('discharged', 0),
                      'solver_s': r.stats.get('solver_time', 0),
                      'reached': r.stats.get('reached', {}),
                      'candidates': len(r.candidates)})
    # vacuity: every job (shards of one job taken together) must have reached
    # its witness points
    groups = {}
    for r in results:
      g = r.job.split(':shard')[0]
      d = groups.setdefault(g, {})
      for k, v in r.stats.get('reached', {}).items():
        d[k] = d.get(k, 0) + v
    for g, reached in groups.items():
      need = getattr(mod, 'REACH', {}).get(g.split(':')[0], None)
      for w in need or []:
        if not reached.get(w):
          inconclusive.append(f'{g}: vacuity witness {w} never reached')
    # replay
    violations, known_hits, replayed = [], [], 0
    known_obligations = 0
    seen_classes = set()
    nrep = 0
    confirmed = {}
    for c in cands:
      if confirmed.get(c.obligation, 0) >= 3:
        # three reproduced, unlisted violations of this obligation already:
        # the verdict cannot change, further replays only cost time
        continue
      try:
        ok, wclass, what = mod.replay(dataclasses.asdict(c))
      except BaseException as e:  # pylint: disable=broad-except
        ok, wclass, what = None, 'replay-error', f'{type(e).__name__}: {e}'
        sys.stderr.write(traceback.format_exc())
      replayed += 1
      if ok == 'drop':
        continue  # infeasible under bit-precise semantics, and no repro
      if ok is None or ok is False:
        inconclusive.append(
            f'counterexample for {c.obligation} did not reproduce on the real '
            f'code ({what}); encoding or stub wrong -> inconclusive')
        continue
      key = (c.obligation, wclass)
      k = match_known(self.prop, c.obligation, wclass)
      if k is not None:
        known_obligations += 1
        if key not in seen_classes:
          known_hits.append((k, what))
        seen_classes.add(key)
        continue
      confirmed[c.obligation] = confirmed.get(c.obligation, 0) + 1
      if key in seen_classes:
        continue
      seen_classes.add(key)
      nrep += 1
      path = write_replay(self.prop, nrep, {
          'property': self.prop, 'obligation': c.obligation,
          'witness_class': wclass, 'what': what, 'data': c.data,
          'job': c.job})
      violations.append((c, wclass, what, path))
    wall = time.time() - t0
    # evidence
    funcs = source_hashes(getattr(mod, 'FUNCS', []))
    bounds = getattr(mod, 'BOUNDS', {}).get(tier, {})
    cov_extra = {
        'functions_encoded': funcs,
        'bounds': bounds,
        'queries': int(tot.get('solver_calls', 0)),
        'solver_s': round(tot.get('solver_time', 0), 2),
        'paths': int(tot.get('paths', 0)),
        'jobs': per_job[:60],
        'njobs': len(per_job),
        'unknown': int(tot.get('unknown', 0)),
        'inconclusive': inconclusive[:20],
        'known_findings_hit': [k['id'] for k, _ in known_hits],
        'selftest_validated': st_n,
        'second_solver_cvc5': {
            k[5:]: sum(j['reached'].get(k, 0) for j in per_job)
            for k in ('cvc5_agree', 'cvc5_disagree', 'cvc5_undecided')},
        'rebound_globals': _rebound(),
    }
    level = mod.LEVEL
    if level == 'proof':
      coverage = {
          'obligations': int(tot.get('obligations', 0)) - known_obligations,
          'discharged': int(tot.get('discharged', 0)),
          'known_finding_obligations': known_obligations,
          'checker_cmd': f'./check {self.prop} --tier {tier}',
          'trusted_base': getattr(mod, 'TRUSTED', []),
          'samples': samples[:6] or [j['job'] for j in per_job[:6]],
      }
    else:
      coverage = {
          'states': max(1, int(tot.get('paths', 0))),
          'transitions': max(1, int(tot.get('decisions', 0))),
          'traces_validated_against_impl': replayed + st_n,
          'samples': samples[:6] or [j['job'] for j in per_job[:6]],
          'obligations': int(tot.get('obligations', 0)),
          'discharged': int(tot.get('discharged', 0)),
      }
    coverage.update(cov_extra)
    write_evidence(self.prop, tier, seed, level, coverage,
                   list(getattr(mod, 'ASSUMPTIONS', [])), wall,
                   len(violations))
    # report
    for k, what in known_hits:
      print(f'KNOWN-FINDING: property={self.prop} {k["id"]}: {k["what"]}')
    for c, wclass, what, path in violations:
      print(f'VIOLATION property={self.prop} replay={path}')
      print(f'  obligation={c.obligation} class={wclass}: {what}')
    print(f'{self.prop} [{tier}] jobs={len(jobs)} paths={int(tot.get("paths",0))} '
          f'obligations={int(tot.get("obligations",0))} '
          f'discharged={int(tot.get("discharged",0))} '
          f'queries={int(tot.get("solver_calls",0))} '
          f'solver_s={tot.get("solver_time",0):.1f} wall_s={wall:.1f} '
          f'violations={len(violations)} known={len(known_hits)} '
          f'inconclusive={len(inconclusive)}')
    if violations:
      return EXIT_VIOLATION
    if inconclusive:
      for x in inconclusive[:15]:
        print('INCONCLUSIVE:', x)
      return EXIT_INCONCLUSIVE
    return EXIT_OK


def _rebound():
  try:
    from symx import patch
    return list(patch.REBOUND)
  except Exception:  # pylint: disable=broad-except
    return []


def main(argv=None):
  import argparse
  ap = argparse.ArgumentParser()
  ap.add_argument('prop')
  ap.add_argument('--tier', default=os.environ.get('VERIF_TIER', 'quick'))
  ap.add_argument('--replay')
  ap.add_argument('--only', help='substring filter on job names')
  a = ap.parse_args(argv)
  seed = int(os.environ.get('VERIF_SEED', '0'))
  os.environ.setdefault('TF_CPP_MIN_LOG_LEVEL', '3')
  try:
    from absl import logging as absl_logging
    absl_logging.set_verbosity(absl_logging.FATAL)
    import logging as _pl
    _pl.getLogger('absl').setLevel(_pl.CRITICAL)
  except Exception:  # pylint: disable=broad-except
    pass
  if a.tier == 'thorough':
    # second solver on every 4th decided obligation (cvc5 binary, 20 s)
    os.environ.setdefault('VERIF_CROSSCHECK', '4')
  mod = importlib.import_module(f'props.{a.prop.lower()}')
  if a.replay:
    with open(a.replay) as f:
      payload = json.load(f)
    ok, wclass, what = mod.replay({'obligation': payload['obligation'],
                                   'data': payload['data'],
                                   'job': payload.get('job', ''),
                                   'note': ''})
    print(f'replay: reproduces={ok} class={wclass}: {what}')
    if ok:
      print(f'VIOLATION property={mod.PROP} replay={a.replay}')
      return EXIT_VIOLATION
    return EXIT_OK
  if a.only:
    orig = mod.jobs
    mod.jobs = lambda t, s: [j for j in orig(t, s) if a.only in j.name]
  return PropertyRun(mod).run(a.tier, seed)


if __name__ == '__main__':
  sys.exit(main())
