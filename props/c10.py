"""C10 - calibration and quantization select the same ops.

Part 1 (decidable core): for every operator the scope string built by the
calibration copy equals the one built by the quantization copy.  For every
regex r, re.search(r, a) == re.search(r, b) holds for all r iff a == b (take
r = '^' + re.escape(a) + '$'), so string equality of the two scopes is exactly
"both interpret every rule's regex against the same operator scope".
Tensor names are symbolic z3 strings.
"""
from __future__ import annotations

import itertools
import re
import types
import z3

from props.common import Candidate, Job, result_from_engines
from symx import patch
from symx.core import Engine, SymStr, z3val_to_py

from ai_edge_quantizer import calibrator
from ai_edge_quantizer import params_generator

PROP = 'C10'
LEVEL = 'model_checking'
FUNCS = [calibrator.Calibrator._get_op_scope,
         params_generator.ParamsGenerator._get_op_scope]
ASSUMPTIONS = [
    'tfl_flatbuffer_utils.get_tensor_name rebound to return the symbolic name '
    'of the harness tensors (names are arbitrary strings, length <= 6 over '
    'the alphabet {a, b, ";", ":", "/", "0"})',
    'agreement for all regexes is reduced to equality of the two scope '
    'strings (r = ^escape(scope)$ separates any two different strings); that '
    'equal (op type, scope) pairs resolve equally is C11 (resolution is a '
    'pure function of the rule list)',
    'operators with <= 3 outputs, any subset of them absent (-1)',
]
BOUNDS = {
    'quick': {'outputs_per_op': [0, 1, 2, 3], 'name_length': '<= 6',
              'alphabet': 'a b ; : / 0'},
    'thorough': {'outputs_per_op': [0, 1, 2, 3, 4], 'name_length': '<= 10',
                 'alphabet': 'a b ; : / 0 _'},
}


class _T:  # a flatbuffer tensor stand-in: only identity matters
  def __init__(self, i):
    self.i = i


def h_scope(pattern, max_len, alphabet):
  """pattern: tuple of bool, True = output present."""
  def h(e):
    names = {}
    tensors = []
    outputs = []
    for k, present in enumerate(pattern):
      if present:
        t = _T(len(tensors))
        names[id(t)] = SymStr.fresh(f'name_{k}', max_len, alphabet)
        tensors.append(t)
        outputs.append(len(tensors) - 1)
      else:
        outputs.append(-1)
    op = types.SimpleNamespace(outputs=outputs, inputs=[])
    with patch.rebind('ai_edge_quantizer.utils.tfl_flatbuffer_utils',
                      'get_tensor_name', lambda t: names[id(t)]):
      a = calibrator.Calibrator._get_op_scope(None, op, tensors)
      b = params_generator.ParamsGenerator._get_op_scope(None, op, tensors)
    e.reach('scope')
    za = a.z if isinstance(a, SymStr) else z3.StringVal(a)
    zb = b.z if isinstance(b, SymStr) else z3.StringVal(b)
    e.check('C10.scope.calibration_equals_quantization', za == zb)
  return h


def _to_candidate(tag, v):
  data = {k: z3val_to_py(x) for k, x in v.model_values.items()}
  data['tag'] = tag
  return Candidate(v.name, data)


def job_scope(job):
  pattern = tuple(job.args['pattern'])
  en = Engine(solver_timeout_ms=30000)
  en.explore(h_scope(pattern, job.args['max_len'], job.args['alphabet']))
  tag = 'scope/' + ''.join('1' if p else '0' for p in pattern)
  r = result_from_engines(job.name, [(tag, en)], _to_candidate)
  r.samples = [f'op with outputs pattern {pattern} (True=present), symbolic '
               'tensor names']
  return r


REACH = {'scope': ['scope']}


def jobs(tier, seed):
  b = BOUNDS[tier]
  max_len = 6 if tier == 'quick' else 10
  alphabet = b['alphabet'].split()
  js = []
  for m in b['outputs_per_op']:
    for pattern in itertools.product((True, False), repeat=m):
      js.append(Job('scope:' + ''.join('1' if p else '0' for p in pattern),
                    job_scope, {'pattern': list(pattern), 'max_len': max_len,
                                'alphabet': alphabet}))
  return js


def replay(c):
  """Replays on the real classes with real strings and shows the separating
  regex through the real RecipeManager.get_quantization_configs."""
  from ai_edge_quantizer import recipe_manager, qtyping
  d = c['data']
  pattern = [ch == '1' for ch in d['tag'].split('/')[1]]
  tensors, outputs = [], []
  for k, present in enumerate(pattern):
    if present:
      nm = d.get(f'name_{k}', '')
      tensors.append(types.SimpleNamespace(name=nm.encode('utf-8')))
      outputs.append(len(tensors) - 1)
    else:
      outputs.append(-1)
  op = types.SimpleNamespace(outputs=outputs, inputs=[])
  a = calibrator.Calibrator._get_op_scope(None, op, tensors)
  b = params_generator.ParamsGenerator._get_op_scope(None, op, tensors)
  if a == b:
    return False, 'scope', f'scopes agree: {a!r}'
  # a regex honoured by one side and ignored by the other
  rx = '^' + re.escape(a) + '$'
  rm = recipe_manager.RecipeManager()
  rm.add_quantization_config(
      rx, qtyping.TFLOperationName.ALL_SUPPORTED,
      algorithm_key=recipe_manager.AlgorithmName.NO_QUANTIZE)
  rm._scope_configs[rx][0].algorithm_key = 'marker'
  rm._scope_configs[rx][0].op_config = qtyping.OpQuantizationConfig(
      skip_checks=True)
  ka, _ = rm.get_quantization_configs(qtyping.TFLOperationName.ADD, a)
  kb, _ = rm.get_quantization_configs(qtyping.TFLOperationName.ADD, b)
  wc = ('calibration scope lacks the ";" separators of the quantization scope'
        if b.replace(';', '') == a.replace(';', '') else 'other')
  return (ka != kb), wc, (
      f'output names {[t.name.decode() for t in tensors]}: calibration scope '
      f'{a!r} vs quantization scope {b!r}; rule regex {rx!r} selects the op '
      f'while calibrating ({ka}) but not while quantizing ({kb})')
