"""C10 - calibration and quantization select the same ops.

Part 1 (decidable core): for every operator the scope string built by the
calibration copy equals the one built by the quantization copy.  For every
regex r, re.search(r, a) == re.search(r, b) holds for all r iff a == b (take
r = '^' + re.escape(a) + '$'), so string equality of the two scopes is exactly
"both interpret every rule's regex against the same operator scope".
Tensor names are symbolic z3 strings.
"""
from __future__ import annotations

import itertools
import re
import types
import z3

from props.common import Candidate, Job, result_from_engines
from symx import patch
from symx.core import Engine, SymStr, z3val_to_py

from ai_edge_quantizer import calibrator
from ai_edge_quantizer import params_generator

PROP = 'C10'
LEVEL = 'model_checking'
FUNCS = [calibrator.Calibrator._get_op_scope,
         params_generator.ParamsGenerator._get_op_scope,
         calibrator.Calibrator.calibrate,
         params_generator.ParamsGenerator.generate_quantization_parameters]
ASSUMPTIONS = [
    'tfl_flatbuffer_utils.get_tensor_name rebound to return the symbolic name '
    'of the harness tensors (names are arbitrary strings, length <= 6 over '
    'the alphabet {a, b, ";", ":", "/", "0"})',
    'agreement for all regexes is reduced to equality of the two scope '
    'strings (r = ^escape(scope)$ separates any two different strings); that '
    'equal (op type, scope) pairs resolve equally is C11 (resolution is a '
    'pure function of the rule list)',
    'operators with <= 3 outputs, any subset of them absent (-1)',
]
BOUNDS = {
    'quick': {'outputs_per_op': [0, 1, 2, 3], 'name_length': '<= 6',
              'alphabet': 'a b ; : / 0'},
    'thorough': {'outputs_per_op': [0, 1, 2, 3, 4], 'name_length': '<= 10',
                 'alphabet': 'a b ; : / 0 _'},
}


class _T:  # a flatbuffer tensor stand-in: only identity matters
  def __init__(self, i):
    self.i = i


def h_scope(pattern, max_len, alphabet):
  """pattern: tuple of bool, True = output present."""
  def h(e):
    names = {}
    tensors = []
    outputs = []
    for k, present in enumerate(pattern):
      if present:
        t = _T(len(tensors))
        names[id(t)] = SymStr.fresh(f'name_{k}', max_len, alphabet)
        tensors.append(t)
        outputs.append(len(tensors) - 1)
      else:
        outputs.append(-1)
    op = types.SimpleNamespace(outputs=outputs, inputs=[])
    with patch.rebind('ai_edge_quantizer.utils.tfl_flatbuffer_utils',
                      'get_tensor_name', lambda t: names[id(t)]):
      a = calibrator.Calibrator._get_op_scope(None, op, tensors)
      b = params_generator.ParamsGenerator._get_op_scope(None, op, tensors)
    e.reach('scope')
    za = a.z if isinstance(a, SymStr) else z3.StringVal(a)
    zb = b.z if isinstance(b, SymStr) else z3.StringVal(b)
    e.check('C10.scope.calibration_equals_quantization', za == zb)
  return h


def _to_candidate(tag, v):
  data = {k: z3val_to_py(x) for k, x in v.model_values.items()}
  data['tag'] = tag
  return Candidate(v.name, data)


def job_scope(job):
  pattern = tuple(job.args['pattern'])
  en = Engine(solver_timeout_ms=30000)
  en.explore(h_scope(pattern, job.args['max_len'], job.args['alphabet']))
  tag = 'scope/' + ''.join('1' if p else '0' for p in pattern)
  r = result_from_engines(job.name, [(tag, en)], _to_candidate)
  r.samples = [f'op with outputs pattern {pattern} (True=present), symbolic '
               'tensor names']
  return r


REACH = {'scope': ['scope'], 'flow': ['flow']}
USES_SHIM = True
USES_FAKE_INTERPRETER = True


def jobs(tier, seed):
  b = BOUNDS[tier]
  max_len = 6 if tier == 'quick' else 10
  alphabet = b['alphabet'].split()
  js = []
  for m in b['outputs_per_op']:
    for pattern in itertools.product((True, False), repeat=m):
      js.append(Job('scope:' + ''.join('1' if p else '0' for p in pattern),
                    job_scope, {'pattern': list(pattern), 'max_len': max_len,
                                'alphabet': alphabet}))
  fc = _flow_cases(tier)
  for i in range(0, len(fc), 6):
    js.append(Job(f'flow:{i // 6}', job_flow, {'tier': tier,
                                               'cases': fc[i:i + 6]}))
  return js


# ---------------------------------------------------------------------------
# part 2: calibrate() then quantize() on the skeleton family, every signature
# ---------------------------------------------------------------------------
def make_flow_harness(model_bytes, recipe, concrete=False):
  import copy
  import z3 as _z3
  from props import c09, pipeline as P
  from symx import backends as B, fakeinterp, symnp
  from symx.core import Inconclusive
  from ai_edge_quantizer import algorithm_manager, qtyping
  from tensorflow.lite.tools import flatbuffer_utils

  def h(e):
    be = symnp.set_backend(B.UF())
    be.reset()
    fakeinterp.STATE.update(sample=0, tag='', content=None)
    if concrete:
      # random-DAG cases (thorough tier): the selection/flow obligations do
      # not depend on tensor values, so concrete contents keep them single
      # path; the symbolic-statistics exploration runs on the curated family
      import numpy as _np
      _rng = _np.random.default_rng(7)

      def _content(tag, sample, si, ti, name, shape, dtype):
        if dtype.kind == 'f':
          return _rng.normal(size=shape).astype(dtype)
        return _rng.integers(0, 2, size=shape).astype(dtype)
      fakeinterp.STATE['content'] = _content
    model = flatbuffer_utils.read_model_from_bytearray(bytearray(model_bytes))
    log = []
    real_get = algorithm_manager.get_quantization_func

    def logging_get(alg, op_key, mode):
      log.append((getattr(mode, 'name', str(mode)), getattr(alg, 'value', alg),
                  getattr(op_key, 'value', op_key)))
      return real_get(alg, op_key, mode)

    res = None
    with patch.symbolic_numpy(), patch.rebind(
        'ai_edge_quantizer.utils.tfl_interpreter_utils', 'tfl',
        fakeinterp.Module), patch.rebind(
            'ai_edge_quantizer.algorithm_manager', 'get_quantization_func',
            logging_get):
      try:
        for key, _ in c09.signatures(model):
          res = c09.calibrate(model_bytes, recipe, key, [0], previous=res)
      except Inconclusive:
        raise
      except Exception as ex:  # pylint: disable=broad-except
        e.reach('flow')
        e.check('C10.flow.calibrate_every_signature_does_not_raise', False,
                info=[f'{type(ex).__name__}: {str(ex)[:120]}'])
        return
    cal = sorted(x[1:] for x in log if x[0] == 'CALIBRATE')
    del log[:]
    with patch.rebind('ai_edge_quantizer.algorithm_manager',
                      'get_quantization_func', logging_get):
      out = P.run_pipeline(e, model_bytes, recipe, 'UF', qsvs=res)
    e.reach('flow')
    mat = sorted(x[1:] for x in log if x[0] == 'MATERIALIZE')
    ex = out.raised
    missing = ex is not None and ('tensor_name_to_qsv' in str(ex)
                                  or 'min and max must be provided' in str(ex)
                                  or 'QSVs' in str(ex))
    e.check('C10.flow.quantize_never_misses_statistics', not missing,
            info=None if ex is None else [f'{type(ex).__name__}: '
                                          f'{str(ex)[:140]}'])
    if ex is None:
      e.check('C10.flow.same_operators_selected_in_both_phases', cal == mat,
              info=[cal[:6], mat[:6]])
  return h


def job_flow(job):
  from props import c09, pipeline as P
  from symx.core import Stats
  from props.common import JobResult
  tier = job.args['tier']
  st = Stats()
  cands, inconc = [], []
  for skel, rname in job.args['cases']:
    recipe = c09._recipe(skel, rname, tier)
    en = Engine(solver_timeout_ms=30000, max_paths=300, wall_budget_s=120)
    en.explore(make_flow_harness(P.model_bytes_of(skel, tier), recipe,
                                 concrete=skel.startswith('dag')))
    st.merge(en.stats)
    inconc += [f'{skel}/{rname}: {x}' for x in en.inconclusive]
    seen = set()
    for v in en.violations:
      if v.name in seen:
        continue
      seen.add(v.name)
      c = Candidate(v.name, {'tag': 'flow', 'skeleton': skel, 'recipe': rname,
                             'info': v.info})
      c.job = job.name
      cands.append(c)
  return JobResult(job.name, st.as_dict(), cands, inconc, {}, samples=[
      f'calibrate every signature (fake interpreter) then quantize: '
      f'{job.args["cases"][:2]}'])


def _flow_cases(tier):
  from props import c09, pipeline as P
  fam = P.skeleton_family(tier)
  # (tensor_feeds_three_concats: the calibrate-then-quantize flow forks on
  # every pairwise comparison of symbolic scales and does not finish in the
  # path budget; the pipeline checks cover it)
  names = [k for k in fam if k != 'tensor_feeds_three_concats'] \
      if tier == 'thorough' else [
      k for k in fam if k != 'tensor_feeds_three_concats' and (
          not k.startswith('single_')) or k in (
          'single_FC', 'single_EMBEDDING_LOOKUP', 'single_SPLIT',
          'single_CONCAT_SAME', 'single_BMM_CONST', 'single_MEAN')]
  if tier == 'thorough':
    names = names + list(P.skeleton_family('thorough_dags'))[:300]
  cs = [(s, r) for s in names for r in ('a8w8', 'a16w8', 'only_last_op_SRQ8')]
  # every single-operator skeleton with a rule that selects that operator
  # alone (no neighbour collects statistics for its operands)
  cs += [(s, 'only_last_op_SRQ8') for s in fam
         if s.startswith('single_') and s not in names]
  cs += [(s, 'srq8_then_catchall_WO') for s in names
         if not s.startswith('single_') or s == 'single_FC']
  cs += [(s, 'optype_FC_SRQ8') for s in (
      'legacy_operator_codes', 'chain_fc_tanh', 'fc_fc', 'single_FC')
         if s in fam]
  return cs


def _replay_flow(c):
  """Real interpreter: calibrate every signature on random data, quantize."""
  import copy
  import numpy as np
  from props import c09, pipeline as P
  from symx import fakeinterp
  from ai_edge_quantizer import quantizer as quantizer_lib
  from tensorflow.lite.tools import flatbuffer_utils
  d = c['data']
  mb = P.model_bytes_of(d['skeleton'], 'thorough')
  recipe = c09._recipe(d['skeleton'], d['recipe'], 'thorough')
  model = flatbuffer_utils.read_model_from_bytearray(bytearray(mb))
  q = quantizer_lib.Quantizer(mb, copy.deepcopy(recipe))
  rng = np.random.default_rng(5)
  res = None
  try:
    for key, sd in c09.signatures(model):
      sg = model.subgraphs[sd.subgraphIndex]
      s = {}
      for tm in sd.inputs:
        t = sg.tensors[tm.tensorIndex]
        nm = tm.name.decode() if isinstance(tm.name, bytes) else tm.name
        s[nm] = (rng.normal(size=tuple(t.shape)).astype(np.float32)
                 if t.type == 0 else rng.integers(0, 2, size=tuple(
                     t.shape)).astype(fakeinterp.NP[t.type]))
      res = q.calibrate([s], key, res)
  except Exception as ex:  # pylint: disable=broad-except
    return True, f'calibrate raises {type(ex).__name__}', (
        f"skeleton={d['skeleton']} recipe={d['recipe']}: calibrate: "
        f'{type(ex).__name__}: {ex}')
  # which runtime tensors got statistics vs which the quantization phase
  # (real RecipeManager on the quantization scope) selects
  want, runtime = set(), set()
  for key, sd in c09.signatures(model):
    si = sd.subgraphIndex
    sg = model.subgraphs[si]
    from symx import oracles as _o
    for ti, t in enumerate(sg.tensors):
      if not _o.has_data(model, t):
        runtime.add(_o.tname(t))
    for ti in c09.selected_runtime_tensors(model, q._recipe_manager, si):
      want.add(_o.tname(sg.tensors[ti]))
  got = {k for k in (res or {}) if k in runtime}
  if got != want:
    return True, 'calibration and quantization select different operators', (
        f"skeleton={d['skeleton']} recipe={d['recipe']}: statistics collected "
        f'for {sorted(got - want)} although quantization does not select '
        f'their ops; missing for {sorted(want - got)}')
  try:
    q.quantize(res)
  except Exception as ex:  # pylint: disable=broad-except
    miss = ('tensor_name_to_qsv' in str(ex) or 'min and max' in str(ex)
            or 'QSVs) are required' in str(ex))
    return miss, 'quantize misses statistics', (
        f"skeleton={d['skeleton']} recipe={d['recipe']}: quantize after "
        f'calibrate: {type(ex).__name__}: {ex}')
  return False, 'flow', 'calibrate then quantize succeeded'


def replay(c):
  """Replays on the real classes with real strings and shows the separating
  regex through the real RecipeManager.get_quantization_configs."""
  from ai_edge_quantizer import recipe_manager, qtyping
  d = c['data']
  if d.get('tag') == 'flow':
    return _replay_flow(c)
  pattern = [ch == '1' for ch in d['tag'].split('/')[1]]
  tensors, outputs = [], []
  for k, present in enumerate(pattern):
    if present:
      nm = d.get(f'name_{k}', '')
      tensors.append(types.SimpleNamespace(name=nm.encode('utf-8')))
      outputs.append(len(tensors) - 1)
    else:
      outputs.append(-1)
  op = types.SimpleNamespace(outputs=outputs, inputs=[])
  a = calibrator.Calibrator._get_op_scope(None, op, tensors)
  b = params_generator.ParamsGenerator._get_op_scope(None, op, tensors)
  if a == b:
    return False, 'scope', f'scopes agree: {a!r}'
  # a regex honoured by one side and ignored by the other
  rx = '^' + re.escape(a) + '$'
  rm = recipe_manager.RecipeManager()
  rm.add_quantization_config(
      rx, qtyping.TFLOperationName.ALL_SUPPORTED,
      algorithm_key=recipe_manager.AlgorithmName.NO_QUANTIZE)
  rm._scope_configs[rx][0].algorithm_key = 'marker'
  rm._scope_configs[rx][0].op_config = qtyping.OpQuantizationConfig(
      skip_checks=True)
  ka, _ = rm.get_quantization_configs(qtyping.TFLOperationName.ADD, a)
  kb, _ = rm.get_quantization_configs(qtyping.TFLOperationName.ADD, b)
  wc = ('calibration scope lacks the ";" separators of the quantization scope'
        if b.replace(';', '') == a.replace(';', '') else 'other')
  return (ka != kb), wc, (
      f'output names {[t.name.decode() for t in tensors]}: calibration scope '
      f'{a!r} vs quantization scope {b!r}; rule regex {rx!r} selects the op '
      f'while calibrating ({ka}) but not while quantizing ({kb})')
