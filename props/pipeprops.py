"""C01 / C02 / C03 / C08 as instances of the shared pipeline exploration."""
from __future__ import annotations

import copy
import time
from props import pipeline as P
from props.common import Candidate, Job, JobResult
from symx import oracles
from symx.core import Stats


def oracle_c01(e, out):
  if out.raised is not None:
    e.check('C01.returns_or_raises', True)
    return
  pr = oracles.well_formed(out.model)
  e.check('C01.well_formed', not pr, info=pr[:4])
  pr = oracles.dtype_consistent(out.model)
  e.check('C01.operand_dtypes_consistent', not pr, info=pr[:4])
  pr = oracles.qparams_prepareable(out.model)
  e.check('C01.quantization_parameters_accepted_by_interpreter_builder',
          not pr, info=pr[:4])
  pr = oracles.fc_shapes_consistent(out.model)
  e.check('C01.fully_connected_filter_shape', not pr, info=pr[:4])


def oracle_c02(e, out):
  if out.raised is not None:
    return
  pr = oracles.skeleton_iso(out.input_model, out.model, P.io_quantized(out))
  e.check('C02.skeleton_and_io_preserved', not pr, info=pr[:4])


def oracle_c03(e, out):
  if out.raised is not None:
    return
  pr = oracles.modes(out.input_model, out.model, P.resolver(out))
  e.check('C03.each_op_in_selected_mode', not pr, info=pr[:4])


def oracle_c08(e, out):
  ex = out.raised
  e.check('C08.shipped_recipe_never_rejects', ex is None,
          info=None if ex is None else
          [f'{type(ex).__name__}: {str(ex)[:160]}', getattr(out, 'stage', '')])


ORACLES = {'C01': oracle_c01, 'C02': oracle_c02, 'C03': oracle_c03,
           'C08': oracle_c08}
CONCRETE = {
    'C01': lambda out: [] if out.raised is not None else (
        oracles.well_formed(out.model) + oracles.dtype_consistent(out.model)
        + oracles.qparams_prepareable(out.model)
        + oracles.fc_shapes_consistent(out.model)),
    'C02': lambda out: [] if out.raised is not None else oracles.skeleton_iso(
        out.input_model, out.model, P.io_quantized(out)),
    'C03': lambda out: [] if out.raised is not None else oracles.modes(
        out.input_model, out.model, P.resolver(out)),
    'C08': lambda out: [] if out.raised is None else [
        f'{type(out.raised).__name__}: {str(out.raised)[:160]}'],
}


# skeletons on which a Quantizer with a past (earlier recipes entered, resolved
# and quantized with) is exercised
HISTORY_SKELETONS = ('single_FC', 'single_ADD', 'single_CONCATENATION',
                     'chain_fc_tanh', 'fc_fc', 'tensor_2_consumers',
                     'intermediate_is_output', 'diamond',
                     'const_shared_by_two_ops', 'two_subgraphs_independent',
                     'tensor_feeds_concat_and_other', 'split_add')


def _pasts():
  import json, os
  d = {'DRQ': [P.rule('.*', '*', 'DRQ')], 'SRQ8': [P.rule('.*', '*', 'SRQ8')],
       'SRQ8_NOIO': [P.rule('^(?!$).*', '*', 'SRQ8')],
       'WO': [P.rule('.*', '*', 'WO')], 'SRQ16': [P.rule('.*', '*', 'SRQ16')]}
  for k, f in (('a8w8', 'default_a8w8_recipe.json'),
               ('a16w8', 'default_a16w8_recipe.json'),
               ('wi8', 'dynamic_wi8_afp32_recipe.json'),
               ('w8float', 'default_af32w8float_recipe.json')):
    with open(os.path.join(P.RECIPE_DIR, f)) as fh:
      d[k] = json.load(fh)
  return d


def job_skeleton(job):
  prop = job.args['prop']
  skel = job.args['skeleton']
  tier = job.args['tier']
  fam = P.skeleton_family('thorough_dags' if skel.startswith('dag') else tier)
  mb = fam[skel]
  recipes = P.recipe_family(mb, 'quick' if skel.startswith('dag') else tier,
                            shipped_only=(prop == 'C08'))
  if skel == 'tensor_feeds_three_concats':
    # three re-quantize ops on one tensor: 2^6 paths per recipe (pairwise
    # comparisons of symbolic scales) - shipped recipes only
    recipes = {k: v for k, v in recipes.items() if k.startswith('shipped:')}
  if skel.startswith('dag') and tier == 'quick':
    # quick tier: the random DAGs run under the shipped, whole-model and
    # single-selector recipes only
    recipes = {k: v for k, v in recipes.items()
               if k.split(':')[0] in ('shipped', 'all', 'only', 'optype')}
  st = Stats()
  cands, inconc, samples = [], [], []
  for rname, recipe in recipes.items():
    en, cs = P.explore_case(skel, rname, mb, recipe, ORACLES[prop])
    st.merge(en.stats)
    cands += cs
    inconc += [f'{skel}/{rname}: {x}' for x in en.inconclusive]
    if len(samples) < 2:
      samples.append(f'{skel} x {rname}: {en.stats.paths} paths over the '
                     'symbolic statistics')
  # the same Quantizer used before with other '*' recipes (resolution must be
  # a pure function of the final rule list)
  if prop in ('C03', 'C01', 'C08', 'C02') and skel in HISTORY_SKELETONS:
    pasts = _pasts()
    pairs = (('DRQ', 'SRQ8'), ('SRQ8', 'WO'), ('SRQ16', 'DRQ'), ('WO', 'SRQ16'),
             ('SRQ8_NOIO', 'WO'), ('SRQ8_NOIO', 'SRQ8'))
    if prop == 'C08':
      # shipped recipes only: a Quantizer that already quantized with one
      # shipped recipe is given another one
      pairs = (('wi8', 'a8w8'), ('a8w8', 'wi8'), ('a16w8', 'w8float'))
    for a, b in pairs:
      en, cs = P.explore_case(skel, f'after:{a}:then:{b}', mb, pasts[b],
                              ORACLES[prop], history=[pasts[a]])
      st.merge(en.stats)
      cands += cs
      inconc += [f'{skel}/after {a} then {b}: {x}' for x in en.inconclusive]
  # a calibration result produced under another recipe (other weight
  # granularity / bit widths) is reused: its entries for the constants were
  # shaped by that recipe
  if prop in ('C01', 'C03') and skel in RECAL_SKELETONS:
    for tag in ('chan->tensor', 'tensor->chan', 'a16->a8'):
      cal_rec, fin = _recal_recipes(tag)
      en, cs = P.explore_case(skel, f'recal:{tag}', mb, fin, ORACLES[prop],
                              const_stats_recipe=cal_rec)
      st.merge(en.stats)
      for c in cs:
        c.data['recal'] = tag
      cands += cs
      inconc += [f'{skel}/recal {tag}: {x}' for x in en.inconclusive]
  r = JobResult(job.name, st.as_dict(), cands, inconc, {}, samples=samples)
  for c in cands:
    c.job = job.name
  return r


RECAL_SKELETONS = ('single_FC', 'single_CONV_2D', 'single_DEPTHWISE_CONV_2D',
                   'single_TRANSPOSE_CONV', 'single_BMM_CONST', 'fc_fc',
                   'single_ADD_CONST')


def _recal_recipes(tag):
  srq_t = copy.deepcopy(P._cfg('SRQ8'))
  srq_t['weight_tensor_config']['granularity'] = 'TENSORWISE'
  rec_c = [P.rule('.*', '*', 'SRQ8')]
  rec_t = [dict(P.rule('.*', '*', 'SRQ8'), op_config=srq_t)]
  return {'chan->tensor': (rec_c, rec_t), 'tensor->chan': (rec_t, rec_c),
          'a16->a8': ([P.rule('.*', '*', 'SRQ16')], rec_c)}[tag]


def _replay_recal(d):
  """Public API: calibrate() under one recipe (real interpreter), load the
  other recipe, quantize() with that calibration result."""
  import numpy as np
  from ai_edge_quantizer import quantizer as quantizer_lib
  from tensorflow.lite.tools import flatbuffer_utils
  cal_rec, fin = _recal_recipes(d['recal'])
  mb = P.model_bytes_of(d['skeleton'])
  inp = flatbuffer_utils.read_model_from_bytearray(bytearray(mb))
  q = quantizer_lib.Quantizer(mb, copy.deepcopy(cal_rec))
  rng = np.random.default_rng(2)
  from props import c09
  res = None
  for key, sd in c09.signatures(inp):
    sg = inp.subgraphs[sd.subgraphIndex]
    s = {}
    for tm in sd.inputs:
      t = sg.tensors[tm.tensorIndex]
      nm = tm.name.decode() if isinstance(tm.name, bytes) else tm.name
      s[nm] = rng.normal(size=tuple(t.shape)).astype(np.float32)
    res = q.calibrate([s], key, res)
  q.load_quantization_recipe(copy.deepcopy(fin))
  out = P.Outcome()
  out.input_model, out.recipe, out.recipe_manager = inp, fin, q._recipe_manager
  try:
    with np.errstate(all='ignore'):
      r = q.quantize(res)
    out.model = flatbuffer_utils.read_model_from_bytearray(
        bytearray(r.quantized_model))
    out.raised = None
  except Exception as ex:  # pylint: disable=broad-except
    out.raised = ex
  return {'outcome': out}


# valid flatbuffers, but not "converter normal form" (C08's domain): the
# library refuses model-wide duplicate tensor names by design, and the
# converter gives activations buffer 0 or a buffer of their own
NOT_CONVERTER_NORMAL_FORM = ('two_subgraphs_same_constant_name',
                             'legacy_operator_codes',
                             'three_subgraphs_same_constant_name_nonadjacent',
                             'fc_weight_is_output',
                             'weight_shared_with_unsupported_op',
                             'activations_share_empty_buffer')


def job_blockwise(job):
  """C01 only: the emulated-subchannel rewrite (blockwise weights, accepted
  with skip_checks) on FULLY_CONNECTED variants."""
  st = Stats()
  cands, inconc, samples = [], [], []
  for name, (mb, recipe) in P.blockwise_cases().items():
    en, cs = P.explore_case(name, 'blockwise', mb, recipe, ORACLES['C01'])
    st.merge(en.stats)
    cands += cs
    inconc += [f'{name}: {x}' for x in en.inconclusive]
    if len(samples) < 2:
      samples.append(f'{name}: {en.stats.paths} paths')
  for c in cands:
    c.job = job.name
  return JobResult(job.name, st.as_dict(), cands, inconc, {}, samples=samples)


N_QUICK_DAGS = 40


def job_written(job):
  """C01 only, concrete: quantize() returns BYTES; the real serializer writes
  them in the ordinary and in the large-model form (hook); they are parsed
  again and checked (well-formedness, parameter counts, every constant's
  buffer holds exactly what its shape and type need)."""
  import copy, os
  import numpy as np
  from symx import decoder
  from ai_edge_quantizer import quantizer as quantizer_lib
  from tensorflow.lite.tools import flatbuffer_utils
  fam = P.skeleton_family('quick')
  n, cands = 0, []
  for skel in ('fc_fc', 'chain_fc_reshape_softmax', 'two_subgraphs_independent',
               'single_CONV_2D', 'single_EMBEDDING_LOOKUP', 'diamond'):
    mb = fam[skel]
    inp = flatbuffer_utils.read_model_from_bytearray(bytearray(mb))
    rf = P.recipe_family(mb, 'quick')
    for rname in ('shipped:default_a8w8_recipe.json',
                  'shipped:dynamic_wi8_afp32_recipe.json',
                  'shipped:default_af32w4float_recipe.json'):
      for large in (False, True):
        n += 1
        env = dict(os.environ)
        try:
          if large:
            os.environ['AI_EDGE_QUANTIZER_VERIF'] = '1'
            os.environ['AI_EDGE_QUANTIZER_VERIF_LARGE_MODEL_THRESHOLD'] = '-1'
          else:
            os.environ.pop('AI_EDGE_QUANTIZER_VERIF', None)
          q = quantizer_lib.Quantizer(mb, copy.deepcopy(rf[rname]))
          qsvs = P.concrete_qsvs(inp, None) if q.need_calibration else None
          try:
            with np.errstate(all='ignore'):
              data = bytes(q.quantize(qsvs).quantized_model)
          except Exception:  # pylint: disable=broad-except
            continue  # raising is allowed
          out = flatbuffer_utils.read_model_from_bytearray(bytearray(data))
          pr = CONCRETE['C01'](type('O', (), {'raised': None, 'model': out})())
          for si, sg in enumerate(out.subgraphs):
            for t in sg.tensors:
              raw = oracles.buffer_bytes(out, t)
              if raw is None or not len(raw):
                continue
              try:
                want = decoder.expected_nbytes(t.type, t.shape)
              except Exception:  # pylint: disable=broad-except
                continue
              if len(raw) != want:
                pr.append(f'sg{si} tensor {oracles.tname(t)!r}: buffer of '
                          f'{len(raw)} bytes for type {t.type} shape '
                          f'{list(t.shape)} ({want} bytes)')
        except Exception as ex:  # pylint: disable=broad-except
          pr = [f'returned bytes do not parse: {type(ex).__name__}: {ex}']
        finally:
          os.environ.clear()
          os.environ.update(env)
        if pr:
          cands.append(Candidate('C01.returned_bytes_parse_and_are_well_formed', {
              'written': True, 'skeleton': skel, 'recipe': rname,
              'form': 'large-model' if large else 'ordinary',
              'problems': pr[:3]}))
  st = {'paths': n, 'decisions': n, 'obligations': n,
        'discharged': n - len(cands), 'solver_calls': 0, 'solver_time': 0.0,
        'reached': {'pipeline': n}}
  for c in cands:
    c.job = job.name
  return JobResult(job.name, st, cands[:4], [], {}, samples=[
      f'{n} returned byte strings (ordinary / large-model form) parsed again'])


def make_jobs(prop, tier):
  fam = P.skeleton_family(tier)
  js = [Job(f'skel:{name}', job_skeleton,
            {'prop': prop, 'skeleton': name, 'tier': tier}) for name in fam
        if not (prop == 'C08' and name in NOT_CONVERTER_NORMAL_FORM)]
  if prop == 'C01':
    js.append(Job('skel:blockwise', job_blockwise, {}))
    js.append(Job('skel:written', job_written, {}))
  # seeded family of random DAGs with 2-5 operators (the seed is VERIF_SEED):
  # all 1200 in the thorough tier, the first 60 in the quick tier
  dags = list(P.skeleton_family('thorough_dags'))
  for name in (dags if tier == 'thorough' else dags[:N_QUICK_DAGS]):
    js.append(Job(f'skel:{name}', job_skeleton,
                  {'prop': prop, 'skeleton': name, 'tier': tier}))
  return js


def classify(prop, probs, skel, rname):
  """Witness class of a replayed violation: coarse, defect-shaped."""
  txt = ' | '.join(probs)
  if prop == 'C08':
    if 'list.remove(x): x not in list' in txt:
      return 'requantize branch removes a repeated-operand consumer twice'
    if 'not have the same quantization parameters' in txt or \
        'do not have the same' in txt:
      return 'buffer-sharing check rejects'
    return 'raises: ' + txt.split(':')[0]
  if prop == 'C02':
    if 'no longer float32 although no rule covers' in txt or \
        'instead of' in txt:
      return 'graph output rewired to an inserted tensor not requested by OUTPUT'
    return 'skeleton: ' + txt[:60]
  if prop == 'C01':
    return 'well-formed: ' + txt[:60]
  return 'modes: ' + txt[:60]


def _replay_history(d, final):
  """replay_public with a past, for a final recipe that is not in the family."""
  import copy
  import numpy as np
  from ai_edge_quantizer import quantizer as quantizer_lib, qtyping
  from tensorflow.lite.tools import flatbuffer_utils
  mb = P.model_bytes_of(d['skeleton'])
  inp = flatbuffer_utils.read_model_from_bytearray(bytearray(mb))
  q = quantizer_lib.Quantizer(mb, None)

  def enter(rec):
    for r in copy.deepcopy(rec):
      q.update_quantization_recipe(
          r['regex'], r['operation'],
          qtyping.OpQuantizationConfig.from_dict(r['op_config'])
          if r.get('op_config') else None, r['algorithm_key'])
  for past in d['history']:
    enter(past)
    try:
      with np.errstate(all='ignore'):
        q.quantize(P.concrete_qsvs(inp, d.get('stats'))
                   if q.need_calibration else None)
    except Exception:  # pylint: disable=broad-except
      pass
  enter(final)
  res = {'input_model': inp}
  out = P.Outcome()
  out.input_model, out.recipe_manager = inp, q._recipe_manager
  out.recipe = [r for past in d['history'] for r in past] + list(final)
  try:
    with np.errstate(all='ignore'):
      r = q.quantize(P.concrete_qsvs(inp, d.get('stats'))
                     if q.need_calibration else None)
    out.model = flatbuffer_utils.read_model_from_bytearray(
        bytearray(r.quantized_model))
    out.raised = None
  except Exception as ex:  # pylint: disable=broad-except
    out.raised = ex
  res['outcome'] = out
  return res


def replay(prop, c):
  d = c['data']
  if d.get('written'):
    r = job_written(Job('skel:written', job_written, {}))
    pr = [f"{x.data['skeleton']} x {x.data['recipe']} [{x.data['form']}]: "
          f"{x.data['problems'][:2]}" for x in r.candidates]
    return bool(pr), 'returned bytes: ' + (
        r.candidates[0].data['form'] if r.candidates else ''), str(pr[:2])
  if d.get('recal'):
    res = _replay_recal(d)
    probs = CONCRETE[prop](res['outcome'])
    what = (f"skeleton={d['skeleton']} calibration result of another recipe "
            f"({d['recal']}): {probs[:3]}")
    if not probs and d.get('concretize') == 'unsat':
      return 'drop', 'spurious', what
    return bool(probs), 'calibration result reused under another recipe: ' + (
        probs[0][:50] if probs else ''), what
  if d.get('history'):
    fam_recipe = d['recipe']
    pasts = _pasts()
    final = pasts[fam_recipe.split(':')[-1]]
    import copy as _copy
    from ai_edge_quantizer import quantizer as _ql
    res = _replay_history(d, final)
  else:
    res = P.replay_public(d['skeleton'], d['recipe'], d.get('stats'))
  probs = CONCRETE[prop](res['outcome'])
  what = (f"skeleton={d['skeleton']} recipe={d['recipe']} "
          f"(statistics from the {d.get('concretize')} witness): {probs[:3]}")
  if not probs and d.get('concretize') == 'unsat':
    return 'drop', 'spurious', what
  return bool(probs), classify(prop, probs, d['skeleton'], d['recipe']), what
