"""C15 - shared constants are quantized consistently or the request is
rejected.  Pipeline exploration (props/pipeline.py) on skeletons with tied
constants x every assignment of modes to the sharers; byte-level oracle with
the independent decoder."""
from __future__ import annotations

import itertools
import re
import numpy as np

from props import pipeline as P
from props.common import Candidate, Job, JobResult
from symx import decoder, oracles, skeletons
from symx.core import Stats
from ai_edge_litert import schema_py_generated as S
from tensorflow.lite.tools import flatbuffer_utils

PROP = 'C15'
LEVEL = 'model_checking'
FUNCS = P.FUNCS
ASSUMPTIONS = P.ASSUMPTIONS_COMMON + [
    'constants are concrete in this exploration (their byte-level laws for '
    'symbolic contents are C05); activation statistics are symbolic',
]
MODES = ['NOQ', 'WO', 'WO4', 'DRQ', 'SRQ8', 'FP16']
BOUNDS = {
    'quick': {'skeletons': 'one constant tensor with 2 consumers; two tensors '
              'on one buffer (one subgraph, two subgraphs); 3 consumers',
              'mode assignments': 'all pairs over NOQ/WO/WO4/DRQ/SRQ8/FP16'},
    'thorough': {'skeletons': 'same + 3 sharers', 'mode assignments':
                 'all pairs / all triples'},
}
REACH = {'tied': ['pipeline']}
REACH_ANY = ['returned_model']
TT = S.TensorType


def _tied_skeletons(tier):
  fam = P.skeleton_family(tier)
  out = {k: fam[k] for k in ('const_shared_by_two_ops',
                             'buffer_shared_by_two_tensors',
                             'two_subgraphs_shared_buffer')}

  def three(same_tensor):
    mb = skeletons.ModelBuilder()
    g = mb.subgraph()
    x = g.input('x', (1, 2))
    data = np.array([[0.5, -1.0], [2.0, 0.25]], np.float32)
    w1 = g.const('w1', data)
    buf = g.sg.tensors[w1].buffer
    w2 = w1 if same_tensor else g.const('w2', data, buffer=buf)
    w3 = w1 if same_tensor else g.const('w3', data, buffer=buf)
    a = g.fc(x, 'fc1', bias=False, w_idx=w1)
    b = g.fc(a, 'fc2', bias=False, w_idx=w2)
    g.output(g.fc(b, 'y', bias=False, w_idx=w3))
    return mb.build()
  out['const_3_consumers'] = three(True)

  def float_int_tie(two_subgraphs):
    # the converter stores constants with identical BYTES once, whatever
    # their dtype: a float32 bias and an int32 shape tensor on one buffer
    mb = skeletons.ModelBuilder()
    g = mb.subgraph('g1')
    x = g.input('x', (1, 2))
    shape_bytes = np.array([1, 2], np.int32)
    y = g.fc(x, 'fc')
    bias = g.sg.operators[-1].inputs[2]
    buf = g.sg.tensors[bias].buffer
    mb.model.buffers[buf].data = np.frombuffer(shape_bytes.tobytes(),
                                               dtype=np.uint8)
    if two_subgraphs:
      g.output(y)
      g2 = mb.subgraph('g2')
      x2 = g2.input('x2', (2, 1))
      r = g2.reshape(x2, 'r2', (1, 2))
      g2.sg.tensors[g2.sg.operators[-1].inputs[1]].buffer = buf
      g2.output(g2.unary('TANH', r, 'y2'))
      mb.signature('first', g, ['x'], ['y'])
      mb.signature('second', g2, ['x'], ['y'])
    else:
      r = g.reshape(y, 'r', (1, 2))
      g.sg.tensors[g.sg.operators[-1].inputs[1]].buffer = buf
      g.output(r)
    return mb.build()
  def two_shapes():
    # the exporter de-duplicates buffers by their bytes whatever the shape:
    # w1[2,4] and w2[4,2] on one buffer
    mb = skeletons.ModelBuilder()
    g = mb.subgraph()
    data = np.arange(8, dtype=np.float32).reshape(2, 4) / 4 - 0.8
    x = g.input('x', (1, 4))
    w1 = g.const('w1', data)
    w2 = g.const('w2', data.reshape(4, 2), buffer=g.sg.tensors[w1].buffer)
    a = g.fc(x, 'fc1', bias=False, w_idx=w1)
    g.output(g.fc(a, 'y', bias=False, w_idx=w2))
    return mb.build()
  def tied_bias(two_subgraphs):
    # one bias buffer read by two FULLY_CONNECTED ops with their own weights
    # and inputs (its int32 form depends on input scale x weight scale)
    mb = skeletons.ModelBuilder()
    g = mb.subgraph('g1')
    x = g.input('x', (1, 2))
    a = g.fc(x, 'fc1')
    b1 = g.sg.operators[-1].inputs[2]
    buf = g.sg.tensors[b1].buffer
    if two_subgraphs:
      g.output(a)
      g2 = mb.subgraph('g2')
      x2 = g2.input('x2', (1, 2))
      y = g2.fc(g2.unary('TANH', x2, 't2'), 'fc2')
      g2.sg.tensors[g2.sg.operators[-1].inputs[2]].buffer = buf
      g2.output(y)
      mb.signature('first', g, ['x'], ['y'])
      mb.signature('second', g2, ['x'], ['y'])
    else:
      y = g.fc(g.unary('TANH', a, 't'), 'fc2')
      g.sg.tensors[g.sg.operators[-1].inputs[2]].buffer = buf
      g.output(y)
    return mb.build()
  out['bias_buffer_shared_by_two_ops'] = tied_bias(False)
  out['bias_buffer_shared_two_subgraphs'] = tied_bias(True)
  out['buffer_shared_by_two_shapes'] = two_shapes()
  out['float_bias_and_int_shape_one_buffer'] = float_int_tie(False)
  out['float_bias_and_int_shape_two_subgraphs'] = float_int_tie(True)
  if tier == 'thorough':
    out['buffer_3_tensors'] = three(False)
  return out


def sharer_ops(model):
  """ops (si, oi, scope) that read a constant whose buffer is referenced more
  than once."""
  uses = {}
  for si, sg in enumerate(model.subgraphs):
    for oi, op in enumerate(sg.operators):
      for i in op.inputs:
        if i >= 0 and oracles.has_data(model, sg.tensors[i]):
          uses.setdefault(sg.tensors[i].buffer, []).append((si, oi))
  res = []
  for b, lst in uses.items():
    if len(lst) > 1:
      res += lst
  scopes = {(si, oi): scope for si, oi, scope, _ in P.op_scopes(model)}
  seen, out = set(), []
  for k in res:
    if k not in seen:
      seen.add(k)
      out.append((k[0], k[1], scopes[k]))
  return out


def recipes_for(model_bytes):
  model = flatbuffer_utils.read_model_from_bytearray(bytearray(model_bytes))
  ops = sharer_ops(model)
  fam = {}
  for modes in itertools.product(MODES, repeat=len(ops)):
    rules = []
    for (si, oi, scope), m in zip(ops, modes):
      if m == 'NOQ':
        continue
      rules.append(P.rule('^' + re.escape(scope) + '$', '*', m))
    if not rules:
      continue
    fam['+'.join(modes)] = rules
  # one global rule for the whole model (every op, INPUT/OUTPUT included,
  # resolves to the same setting)
  import json, os
  for f in ('default_a8w8_recipe.json', 'default_a16w8_recipe.json',
            'dynamic_wi8_afp32_recipe.json'):
    with open(os.path.join(P.RECIPE_DIR, f)) as fh:
      fam['global:' + f.split('_recipe')[0]] = json.load(fh)
  return fam


def shared_constant_problems(inp, out, sym=None):
  """Byte-level consistency of every constant of the output model."""
  pr = []
  # original float constants by (subgraph, tensor index)
  for si, (gi, go) in enumerate(zip(inp.subgraphs, out.subgraphs)):
    for ti, t0 in enumerate(gi.tensors):
      if t0.type != TT.FLOAT32 or not oracles.has_data(inp, t0):
        continue
      orig = decoder.decode(oracles.buffer_bytes(inp, t0), TT.FLOAT32,
                            t0.shape)
      t1 = go.tensors[ti]
      raw = oracles.buffer_bytes(out, t1)
      nm = oracles.tname(t0)
      if not isinstance(raw, (bytes, bytearray)):
        # contents that depend on the symbolic statistics (a quantized
        # bias): their byte-level law is C05's; sharers' agreement is below
        continue
      if t1.type not in decoder.ITEMSIZE and t1.type != TT.INT4:
        pr.append(f'constant {nm!r}: unexpected type {t1.type}')
        continue
      want = decoder.expected_nbytes(t1.type, t1.shape)
      if len(raw) != want:
        pr.append(f'constant {nm!r}: tensor type {t1.type} shape '
                  f'{list(t1.shape)} needs {want} bytes, buffer has '
                  f'{len(raw)} (a consumer would reinterpret the bytes)')
        continue
      vals = decoder.decode(raw, t1.type, t1.shape)
      if t1.type == TT.FLOAT32:
        if not np.array_equal(vals, orig):
          pr.append(f'constant {nm!r}: float tensor no longer holds the '
                    'original values')
        if t1.quantization is not None and t1.quantization.scale is not None:
          pr.append(f'constant {nm!r}: float tensor carries quantization '
                    'parameters')
      elif t1.type == TT.FLOAT16:
        if not np.array_equal(vals, orig.astype(np.float16)):
          pr.append(f'constant {nm!r}: float16 bytes are not the rounded '
                    'originals')
      else:
        q = t1.quantization
        if q is None or q.scale is None or len(q.scale) == 0:
          pr.append(f'constant {nm!r}: integer type {t1.type} without '
                    'quantization parameters')
          continue
        from symx.symnp import SymArray as _SA
        if any(isinstance(x, _SA) and not x.is_concrete()
               for x in list(q.scale) + list(q.zeroPoint)):
          # parameters that depend on the symbolic statistics (a bias): the
          # byte-level decode of symbolic contents is C05's; the agreement of
          # the sharers is decided below as a formula
          continue
        sc = np.array([float(np.asarray(x)) for x in q.scale])
        zp = np.array([int(np.asarray(x)) for x in q.zeroPoint])
        qd_ = q.quantizedDimension or 0
        if len(sc) != len(zp) or (len(sc) > 1 and (
            qd_ >= len(t1.shape) or int(t1.shape[qd_]) != len(sc))):
          pr.append(f'constant {nm!r}: shape {list(t1.shape)} carries '
                    f'{len(sc)} scales / {len(zp)} zero points along '
                    f'dimension {qd_} (parameters of another view of the '
                    'buffer?)')
          continue
        deq = decoder.dequantize(vals, sc, zp, q.quantizedDimension or 0,
                                 tuple(t1.shape))
        step = sc if len(sc) == 1 else sc.reshape(
            [len(sc) if d == (q.quantizedDimension or 0) else 1
             for d in range(len(t1.shape))])
        err = np.abs(deq - orig.astype(np.float64))
        if np.any(err > step * (1 + 1e-3)):
          pr.append(f'constant {nm!r}: decoding the stored bytes with the '
                    f"tensor's own parameters is off by up to "
                    f'{float(np.max(err / step)):.2f} steps from the '
                    'original (quantized twice / foreign parameters?)')
  # constants that are not float (shapes, axes, indices) are never quantized:
  # same type, same bytes
  for si, (gi, go) in enumerate(zip(inp.subgraphs, out.subgraphs)):
    for ti, t0 in enumerate(gi.tensors):
      if t0.type == TT.FLOAT32 or not oracles.has_data(inp, t0):
        continue
      t1 = go.tensors[ti]
      nm = oracles.tname(t0)
      a, b = oracles.buffer_bytes(inp, t0), oracles.buffer_bytes(out, t1)
      if t1.type != t0.type:
        pr.append(f'constant {nm!r}: non-float constant changed type '
                  f'{t0.type} -> {t1.type}')
      elif not isinstance(b, (bytes, bytearray)) or bytes(a) != bytes(b):
        pr.append(f'constant {nm!r} (type {t0.type}): its bytes changed '
                  '(a sharer of its buffer was quantized in place)')
  # tensors that shared a buffer AND a dtype in the input must agree on dtype
  # and parameters for the same bytes in the output
  by_buf = {}
  for si, (gi, go) in enumerate(zip(inp.subgraphs, out.subgraphs)):
    for ti, t in enumerate(go.tensors):
      if oracles.has_data(out, t) and ti < len(gi.tensors):
        by_buf.setdefault((t.buffer, gi.tensors[ti].type), []).append(t)
  for (b, _), ts in by_buf.items():
    if len(ts) < 2:
      continue
    from props import c19 as _c19
    for t in ts[1:]:
      qa, qb = ts[0].quantization, t.quantization
      ha = qa is not None and qa.scale is not None
      hb = qb is not None and qb.scale is not None
      same = (t.type == ts[0].type and ha == hb)
      if same and ha:
        same = (qa.quantizedDimension or 0) == (qb.quantizedDimension or 0)
        for f1, f2 in ((qa.scale, qb.scale), (qa.zeroPoint, qb.zeroPoint)):
          r = _c19._qeq(f1, f2) if same else False
          if r is False:
            same = False
          elif r is not True and sym is not None:
            sym.append(r)
          elif r is not True:
            same = False
      if not same:
        pr.append(f'buffer {b}: tensors {oracles.tname(ts[0])!r} and '
                  f'{oracles.tname(t)!r} disagree on dtype/parameters for the '
                  'same bytes')
  return pr


def oracle(e, out):
  if out.raised is not None:
    e.check('C15.rejected', True)
    return
  e.reach('returned_model')
  sym = []
  pr = shared_constant_problems(out.input_model, out.model, sym)
  pr += oracles.modes(out.input_model, out.model, P.resolver(out))
  e.check('C15.shared_constant_consistent', not pr, info=pr[:4])
  if sym:
    import z3
    e.check('C15.sharers_agree_on_parameters', z3.And(*sym),
            info=['parameters of tensors on one buffer differ for some '
                  'statistics'])


def job_tied(job):
  skel, tier = job.args['skeleton'], job.args['tier']
  mb = _tied_skeletons(tier)[skel]
  st = Stats()
  cands, inconc, samples = [], [], []
  names = job.args['recipes']
  fam = recipes_for(mb)
  rejected = 0
  for rname in names:
    en, cs = P.explore_case(skel, rname, mb, fam[rname], oracle)
    st.merge(en.stats)
    for c in cs:
      c.data['c15'] = True
    cands += cs
    inconc += [f'{skel}/{rname}: {x}' for x in en.inconclusive]
    if len(samples) < 2:
      samples.append(f'{skel}: sharers in modes {rname}: '
                     f'{en.stats.paths} paths')
  r = JobResult(job.name, st.as_dict(), cands, inconc, {}, samples=samples)
  for c in cands:
    c.job = job.name
  return r


def job_reuse(job):
  """Concrete: the rewrite step (ModelModifier.modify_model) used twice on
  one object gives the same, consistent model for tied constants."""
  import copy
  from ai_edge_quantizer import model_modifier, params_generator
  from ai_edge_quantizer import quantizer as quantizer_lib
  n, cands = 0, []
  for skel, mb in _tied_skeletons('quick').items():
    fam = recipes_for(mb)
    for rname in ('WO+WO', 'DRQ+DRQ', 'FP16+FP16', 'WO4+WO4'):
      if rname not in fam:
        continue
      n += 1
      inp = flatbuffer_utils.read_model_from_bytearray(bytearray(mb))
      q = quantizer_lib.Quantizer(mb, copy.deepcopy(fam[rname]))
      try:
        params = q._get_quantization_params(None)
        mm = model_modifier.ModelModifier(mb)
        first = bytes(mm.modify_model(copy.deepcopy(params)))
        second = bytes(mm.modify_model(copy.deepcopy(params)))
      except Exception:  # pylint: disable=broad-except
        continue  # rejected
      out2 = flatbuffer_utils.read_model_from_bytearray(bytearray(second))
      pr = shared_constant_problems(inp, out2)
      if first != second:
        pr.append('second modify_model() on the same ModelModifier returns '
                  'other bytes than the first')
      if pr:
        cands.append(Candidate('C15.shared_constant_consistent_on_reuse', {
            'reuse': True, 'skeleton': skel, 'recipe': rname,
            'problems': pr[:3]}))
  st = {'paths': n, 'decisions': n, 'obligations': n,
        'discharged': n - len(cands), 'solver_calls': 0, 'solver_time': 0.0,
        'reached': {'pipeline': n}}
  for c in cands:
    c.job = job.name
  return JobResult(job.name, st, cands[:3], [], {}, samples=[
      f'{n} tied models rewritten twice by one ModelModifier'])


def jobs(tier, seed):
  js = [Job('tied:reuse', job_reuse, {})]
  for skel, mb in _tied_skeletons(tier).items():
    names = list(recipes_for(mb))
    chunk = 12
    for i in range(0, len(names), chunk):
      js.append(Job(f'tied:{skel}:{i // chunk}', job_tied,
                    {'skeleton': skel, 'tier': tier,
                     'recipes': names[i:i + chunk]}))
  return js


def replay(c):
  import copy
  from ai_edge_quantizer import quantizer as quantizer_lib
  d = c['data']
  if d.get('reuse'):
    r = job_reuse(Job('tied:reuse', job_reuse, {}))
    pr = [f"{x.data['skeleton']} {x.data['recipe']}: {x.data['problems'][:2]}"
          for x in r.candidates]
    return bool(pr), 'ModelModifier reused', str(pr[:2])
  mb = _tied_skeletons('thorough')[d['skeleton']]
  recipe = recipes_for(mb)[d['recipe']]
  inp = flatbuffer_utils.read_model_from_bytearray(bytearray(mb))
  q = quantizer_lib.Quantizer(mb, copy.deepcopy(recipe))
  qsvs = P.concrete_qsvs(inp, d.get('stats')) if q.need_calibration else None
  try:
    with np.errstate(all='ignore'):
      r = q.quantize(qsvs)
  except Exception as ex:  # pylint: disable=broad-except
    return (False if d.get('concretize') != 'unsat' else 'drop'), 'raised', \
        f'{type(ex).__name__}: {ex}'
  outm = flatbuffer_utils.read_model_from_bytearray(
      bytearray(r.quantized_model))
  out = P.Outcome()
  out.input_model, out.model, out.recipe_manager = inp, outm, q._recipe_manager
  pr = shared_constant_problems(inp, outm)
  pr += oracles.modes(inp, outm, P.resolver(out))
  txt = ' | '.join(pr)
  wc = 'shared-constant: ' + re.sub(r"'[^']*'", 'T', txt)[:70]
  if not pr and d.get('concretize') == 'unsat':
    return 'drop', 'spurious', ''
  return bool(pr), wc, (f"skeleton={d['skeleton']} sharers' modes="
                        f"{d['recipe']}: {pr[:3]}")
