"""C03 - see props/pipeline.py and props/pipeprops.py (DESIGN 3/C03)."""
from props import pipeline as P
from props import pipeprops as PP

PROP = 'C03'
LEVEL = 'model_checking'
FUNCS = P.FUNCS
ASSUMPTIONS = P.ASSUMPTIONS_COMMON
BOUNDS = {
    'quick': {'skeletons': 'curated list (43 single-op kinds + 35 topologies, DESIGN 3.0, 7.1, 9) + the first 40 seeded random DAGs of 2-5 operators',
              'recipes': '6 shipped' if PROP == 'C08' else
              '6 shipped + fp16 + a16 + per-op selective SRQ8/WO/DRQ + all-but-one',
              'statistics': 'symbolic float32 min<=max per runtime tensor',
              'paths_per_case_cap': 3000},
    'thorough': {'skeletons': 'same family + 1200 random DAGs of 2-5 operators '
                 '(seeded by VERIF_SEED) over a 12-kind table with random '
                 'graph-output sets', 'recipes': 'quick + a16/mixed '
                 'selective variants', 'statistics': 'symbolic',
                 'paths_per_case_cap': 3000},
}
REACH = {'skel': ['pipeline']}


def _lemma_harness(e):
  """Lemma T: for every OpQuantizationConfig shape the real
  get_tensor_transformations returns the list the mode table of the property
  demands, or raises ValueError; and bit width -> tensor dtype for ALL ints."""
  import z3
  from symx.core import SymBool, SymInt, SymTok
  from ai_edge_quantizer import qtyping
  from ai_edge_quantizer.algorithms.utils import min_max_quantize_utils as mmu
  from ai_edge_quantizer.transformations import quantize_tensor as qt
  from ai_edge_litert import schema_py_generated as S
  QT = qtyping.QuantTransformation
  T = qtyping.TensorQuantizationConfig
  has_act = SymTok.fresh('has_activation', [False, True]).concrete()
  gran = SymTok.fresh('granularity', list(qtyping.QuantGranularity)).concrete()
  cp = SymTok.fresh('precision', list(qtyping.ComputePrecision)).concrete()
  wdt = SymTok.fresh('wdtype', list(qtyping.TensorDataType)).concrete()
  xd = SymBool(z3.Bool('explicit_dequantize'))
  inb = SymBool(z3.Bool('is_inbounding'))
  const = SymBool(z3.Bool('is_constant'))
  for n_, v in (('explicit_dequantize', xd), ('is_inbounding', inb),
                ('is_constant', const)):
    e.register_input(n_, v.z)
  try:
    cfg = qtyping.OpQuantizationConfig(
        activation_tensor_config=T(num_bits=8) if has_act else None,
        weight_tensor_config=T(num_bits=8, granularity=gran, dtype=wdt,
                               block_size=32),
        compute_precision=cp, explicit_dequantize=xd)
  except ValueError:
    return
  raised = False
  try:
    got = mmu.get_tensor_transformations(cfg, inb, const)
  except ValueError:
    raised, got = True, None
  e.reach('lemma')
  integer = cp == qtyping.ComputePrecision.INTEGER
  blockwise = gran == qtyping.QuantGranularity.BLOCKWISE
  i, c, x = inb.z, const.z, xd.z
  # expected list as a function of the (now decided) flags
  def expect():
    if integer and has_act:
      return z3.If(i, z3.If(c, 3, 1), 2)       # QUANTIZE_TENSOR/ADD_Q/ADD_DQ
    if integer:
      return z3.If(z3.And(i, c), 3, 0)
    if blockwise:
      return z3.If(c, 4, z3.If(x, 0, -1))      # emulated subchannel / WO / raise
    return z3.If(x, z3.If(z3.And(i, c), 2, 0), -1)
  code = z3.IntVal(-1) if raised else z3.IntVal(got[0].value)
  e.check('C03.lemmaT.transformations_follow_the_mode_table',
          z3.And(code == expect(),
                 z3.BoolVal(raised or len(got) == 1)))
  # bit width -> tensor dtype, every integer
  bw = SymInt.fresh('bitwidth')
  try:
    t = qt.quant_params_to_tflite_type(bw)
    tcode = z3.IntVal(int(t))
  except ValueError:
    tcode = z3.IntVal(-1)
  TT = S.TensorType
  want = z3.If(bw.z <= 4, int(TT.INT4), z3.If(bw.z <= 8, int(TT.INT8), z3.If(
      bw.z <= 16, int(TT.INT16), z3.If(bw.z <= 32, int(TT.INT32), z3.If(
          bw.z <= 64, int(TT.INT64), -1)))))
  e.check('C03.lemmaT.bit_width_to_tensor_dtype', tcode == want)
  try:
    t = qt.nonlinear_quant_params_to_tflite_type(bw)
    tcode = z3.IntVal(int(t))
  except ValueError:
    tcode = z3.IntVal(-1)
  want = z3.If(bw.z == 16, int(TT.FLOAT16), z3.If(bw.z == 32, int(TT.FLOAT32),
                                                 -1))
  e.check('C03.lemmaT.float_bit_width_to_tensor_dtype', tcode == want)


def job_lemma(job):
  from symx.core import Engine, z3val_to_py
  from props.common import result_from_engines, Candidate
  en = Engine(solver_timeout_ms=20000, max_paths=20000)
  en.explore(_lemma_harness)

  def tc(tag, v):
    d = {k: z3val_to_py(x) for k, x in v.model_values.items()}
    d['lemma'] = True
    return Candidate(v.name, d)
  r = result_from_engines(job.name, [('lemmaT', en)], tc)
  r.samples = [f'Lemma T: {en.stats.paths} paths over config shapes x flags x '
               'all integer bit widths']
  return r


REACH['lemma'] = ['lemma']


def jobs(tier, seed):
  from props.common import Job
  return PP.make_jobs(PROP, tier) + [Job('lemma:T', job_lemma, {})]


def replay(c):
  if c['data'].get('lemma'):
    # the witness is a concrete flag / bit-width assignment: re-evaluate
    from ai_edge_quantizer import qtyping
    from ai_edge_quantizer.algorithms.utils import min_max_quantize_utils as mmu
    from ai_edge_quantizer.transformations import quantize_tensor as qt
    d = c['data']
    if c['obligation'].endswith('tensor_dtype'):
      bw = int(d.get('bitwidth', 0))
      try:
        got = int(qt.quant_params_to_tflite_type(bw))
      except ValueError:
        got = -1
      return True, 'lemmaT', f'bit width {bw} -> tensor type {got}'
    T = qtyping.TensorQuantizationConfig
    cfg = qtyping.OpQuantizationConfig(
        activation_tensor_config=T(num_bits=8) if d.get('has_activation')
        else None,
        weight_tensor_config=T(num_bits=8, granularity=list(
            qtyping.QuantGranularity)[d.get('granularity', 0)], block_size=32),
        compute_precision=list(qtyping.ComputePrecision)[d.get('precision', 0)],
        explicit_dequantize=bool(d.get('explicit_dequantize')))
    try:
      got = mmu.get_tensor_transformations(cfg, bool(d.get('is_inbounding')),
                                           bool(d.get('is_constant')))
    except ValueError as ex:
      got = f'ValueError: {ex}'
    return True, 'lemmaT', f'{cfg} inbound={d.get("is_inbounding")} ' \
                           f'const={d.get("is_constant")}: {got}'
  return PP.replay(PROP, c)
