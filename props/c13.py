"""C13 - every accepted (op, config) pair is sound on the Python side; every
other combination is refused (specific op: ValueError at update time; '*':
silently unquantized at resolution time).

Symbolic part: for every operator selector x algorithm, configs with SYMBOLIC
scalar fields (num_bits, block_size unbounded ints; symmetric,
explicit_dequantize bools; enums and presence forked) through the real
update/resolve code with the REAL support checks and policy.
Materialisation part: every accepted pair of the (finite) lattice runs through
the whole real pipeline on the op's skeleton with symbolic statistics.
"""
from __future__ import annotations

import itertools
import re
import z3

from props import c12, pipeline as P, pipeprops as PP
from props.common import Candidate, Job, JobResult, result_from_engines
from symx import oracles
from symx.core import (Engine, Stats, SymBool, SymInt, SymTok, Inconclusive,
                       z3val_to_py)

from ai_edge_quantizer import algorithm_manager, algorithm_manager_api
from ai_edge_quantizer import default_policy, qtyping, recipe_manager
from ai_edge_quantizer.algorithms.uniform_quantize import naive_min_max_quantize as nmm
from ai_edge_quantizer.algorithms.nonlinear_quantize import float_casting
from ai_edge_quantizer.algorithms.utils import min_max_quantize_utils as mmu

PROP = 'C13'
LEVEL = 'model_checking'
FUNCS = [algorithm_manager_api.AlgorithmManagerApi.check_op_quantization_config,
         nmm.check_op_quantization_config,
         float_casting.check_op_quantization_config,
         mmu.check_if_valid_op_config, mmu.check_subchannel_config,
         default_policy.update_default_config_policy,
         default_policy._unroll_json_config,
         qtyping.OpQuantizationConfig.__post_init__,
         recipe_manager.RecipeManager.add_quantization_config,
         recipe_manager.RecipeManager.get_quantization_configs] + P.FUNCS[:8]
ASSUMPTIONS = P.ASSUMPTIONS_COMMON + [
    'skip_checks=False throughout (the property excludes skip_checks)',
    '"the interpreter prepares the model and outputs track the float model": '
    'FFI (C06/C07 not applicable); the Python-side meaning of "sound" decided '
    'here: materialisation and graph rewrite do not raise and satisfy the '
    'C01 well-formedness and C03 mode oracles',
    'README coverage table parsed at run time as documentation oracle: '
    'differences between the documented and the accepted set are reported in '
    'the evidence (README drift alone is not a violation)',
]
BOUNDS = {
    'quick': {'selectors': 'all 25 TFLOperationName members', 'algorithms': 3,
              'scalar fields': 'symbolic (unbounded ints / bools)',
              'materialised pairs': 'every accepted pair of the lattice '
                                    '{none,8,16}x{4,8,16}x... on its skeleton'},
    'thorough': {'selectors': 'all', 'algorithms': 3,
                 'scalar fields': 'symbolic',
                 'materialised pairs': 'same, incl. constant-operand and '
                                       'no-bias variants'},
}
REACH = {'sym': ['decided'], 'mat': ['pipeline'], 'policy': ['policy']}
_Op = qtyping.TFLOperationName
T = qtyping.TensorQuantizationConfig
ALGS = c12.ALGS


# ---------------------------------------------------------------------------
# the finite lattice, enumerated with the real check
# ---------------------------------------------------------------------------
def lattice_configs():
  tcs_w = [T(num_bits=b, symmetric=s, granularity=g, dtype=d)
           for b in (4, 8, 16) for s in (True, False)
           for g in (qtyping.QuantGranularity.TENSORWISE,
                     qtyping.QuantGranularity.CHANNELWISE)
           for d in qtyping.TensorDataType]
  tcs_a = [None] + [T(num_bits=b, symmetric=s) for b in (8, 16)
                    for s in (True, False)]
  out = []
  for a in tcs_a:
    for w in tcs_w:
      for cp in qtyping.ComputePrecision:
        for xd in (False, True):
          try:
            out.append(qtyping.OpQuantizationConfig(
                activation_tensor_config=a, weight_tensor_config=w,
                compute_precision=cp, explicit_dequantize=xd))
          except ValueError:
            pass  # not constructible at all
  return out


_ACC = {}


def accepted_pairs():
  """[(algorithm, op, config)] the real check accepts, over the lattice."""
  if 'acc' not in _ACC:
    acc = []
    cfgs = lattice_configs()
    for alg in ALGS[1:]:
      for op in _Op:
        if op == _Op.ALL_SUPPORTED:
          continue
        for cfg in cfgs:
          try:
            algorithm_manager.check_op_quantization_config(alg, op, cfg)
            acc.append((alg, op, cfg))
          except ValueError:
            pass
    # float casting ignores some weight-config fields: unusual values for
    # them are materialised too
    odd = qtyping.OpQuantizationConfig(
        weight_tensor_config=T(
            num_bits=16, symmetric=False, dtype=qtyping.TensorDataType.FLOAT,
            granularity=qtyping.QuantGranularity.BLOCKWISE, block_size=3),
        compute_precision=qtyping.ComputePrecision.FLOAT,
        explicit_dequantize=False)
    for op in _Op:
      try:
        algorithm_manager.check_op_quantization_config(ALGS[2], op, odd)
        acc.append((ALGS[2], op, odd))
      except ValueError:
        pass
    _ACC['acc'] = acc
    _ACC['n_lattice'] = len(cfgs)
  return _ACC['acc']


def reference_policy():
  """The accepted (operator -> configs) table written out from the TEXT of
  DEFAULT_JSON_POLICY by the check itself (not by the library's unrolling
  code): every config entry stands for the product of its listed symmetric x
  granularity alternatives of activation and weight config; every operator
  listed under the entry gets all of them."""
  import json
  pol = json.loads(default_policy.DEFAULT_JSON_POLICY)
  table = {}
  for cname, ops in pol['ops_per_config'].items():
    c = pol['configs'][cname]

    def alts(tc):
      if tc is None:
        return [None]
      return [T(num_bits=tc['num_bits'], symmetric=s,
                granularity=qtyping.QuantGranularity(g),
                dtype=qtyping.TensorDataType(tc['dtype']))
              for s in tc['symmetric'] for g in tc['granularity']]
    cfgs = [qtyping.OpQuantizationConfig(
        activation_tensor_config=a, weight_tensor_config=w,
        compute_precision=qtyping.ComputePrecision(c['compute_precision']),
        explicit_dequantize=c['explicit_dequantize'])
            for a in alts(c.get('activation_tensor_config'))
            for w in alts(c['weight_tensor_config'])]
    for op in ops:
      table.setdefault(op, [])
      for cfg in cfgs:
        if cfg not in table[op]:
          table[op].append(cfg)
  return table


def job_policy(job):
  """Exhaustive over the lattice: the min/max algorithm accepts (operator,
  config) only if the JSON policy text lists it; every listed pair is
  accepted."""
  ref = reference_policy()
  acc = {}
  for alg, op, cfg in accepted_pairs():
    if alg == ALGS[1]:
      acc.setdefault(op.value, []).append(cfg)
  bad = []
  n = 0
  for op in _Op:
    if op == _Op.ALL_SUPPORTED:
      continue
    want, got = ref.get(op.value, []), acc.get(op.value, [])
    n += len(want) + len(got)
    for cfg in got:
      if cfg not in want:
        bad.append(('accepted although the policy text does not list it',
                    op.value, cfg))
    for cfg in want:
      if cfg not in got:
        bad.append(('listed in the policy text but refused', op.value, cfg))
  st = {'paths': n, 'decisions': n, 'obligations': n,
        'discharged': n - len(bad), 'solver_calls': 0, 'solver_time': 0.0,
        'reached': {'policy': n}}
  cands = [Candidate('C13.accepted_set_equals_policy_text',
                     {'tag': 'policy', 'what': w, 'op': o,
                      'cfg': c12.J(c.to_dict())}) for w, o, c in bad[:6]]
  for c in cands:
    c.job = job.name
  return JobResult(job.name, st, cands, [], {}, samples=[
      f'{n} (operator, config) pairs: accepted set of the min/max algorithm '
      'vs the table written out from the policy text'])


IGNORED_BY_FLOAT_CASTING = ('symmetric', 'granularity', 'block_size')


def _canon(j, alg):
  """Fields the float-casting algorithm never reads (its materialize
  functions do not look at the config) are projected away; the
  materialisation jobs include variants with unusual values for them."""
  if getattr(alg, 'value', alg) != 'float_casting':
    return j
  j = dict(j)
  j.pop('explicit_dequantize', None)
  if 'weight_tensor_config' in j:
    j['weight_tensor_config'] = {
        k: v for k, v in j['weight_tensor_config'].items()
        if k not in IGNORED_BY_FLOAT_CASTING}
  return j


def in_list_formula(cfg, members, alg=None):
  """z3: the symbolic config equals one of the concrete members."""
  me = _canon(c12.J(cfg.to_dict()), alg)
  return z3.Or(*[c12.eq_formula(me, _canon(c12.J(m.to_dict()), alg))
                 for m in members]) if members else z3.BoolVal(False)


# ---------------------------------------------------------------------------
# symbolic harness
# ---------------------------------------------------------------------------
class _Facade:
  """RecipeManager reached through the public Quantizer facade."""

  def __init__(self):
    from ai_edge_quantizer import quantizer as quantizer_lib
    self.q = quantizer_lib.Quantizer(bytearray(b''), None)

  def add_quantization_config(self, regex, op, cfg, alg):
    return self.q.update_quantization_recipe(regex, op, cfg, alg)

  def get_quantization_configs(self, op, scope):
    return self.q._recipe_manager.get_quantization_configs(op, scope)


def make_sym_harness(op, alg):
  members = [c for a, o, c in accepted_pairs() if a == alg and o == op]
  if alg == ALGS[1]:
    # min/max algorithm: the reference is the table written out from the
    # policy TEXT by the check, not what the library's check accepts
    members = reference_policy().get(op.value, [])

  def h(e):
    try:
      cfg = c12.sym_op_cfg(e, 'c')
    except ValueError:
      return  # config not constructible (rejected by __post_init__)
    if cfg is None:
      cfg = qtyping.OpQuantizationConfig()
    e.assume(z3.Not(cfg.skip_checks.z) if isinstance(cfg.skip_checks, SymBool)
             else z3.BoolVal(not cfg.skip_checks))
    # specific operator at update time
    rm = _Facade()
    outcome = 'accepted'
    try:
      rm.add_quantization_config('.*', op, cfg, alg)
    except ValueError:
      outcome = 'refused'
    except Inconclusive:
      raise
    except Exception as ex:  # pylint: disable=broad-except
      outcome = f'{type(ex).__name__}: {str(ex)[:80]}'
    e.reach('decided')
    e.check('C13.update.accepts_or_raises_ValueError',
            outcome in ('accepted', 'refused'), info=[op.value, str(alg),
                                                      outcome])
    # '*' at update time never raises; at resolution time applies iff the
    # specific update accepts
    rm2 = _Facade()
    star = 'ok'
    try:
      rm2.add_quantization_config('.*', _Op.ALL_SUPPORTED, cfg, alg)
      got = rm2.get_quantization_configs(op, 'scope;')
    except Inconclusive:
      raise
    except Exception as ex:  # pylint: disable=broad-except
      star = f'{type(ex).__name__}: {str(ex)[:80]}'
      got = None
    e.check('C13.star.never_raises', star == 'ok', info=[op.value, star])
    if got is not None and outcome in ('accepted', 'refused'):
      applied = got[0] != algorithm_manager.AlgorithmName.NO_QUANTIZE
      e.check('C13.star.applied_iff_specific_update_accepts',
              applied == (outcome == 'accepted'),
              info=[op.value, str(alg), outcome, str(got[0])])
      if not applied:
        e.check('C13.star.falls_back_to_default_no_quantize',
                got[1] == qtyping.OpQuantizationConfig(), info=[op.value])
    # history independence of the "*" path: after an accepted "*" rule has
    # been resolved once, replacing it resolves like a fresh manager
    if got is not None and members:
      rm3 = _Facade()
      try:
        rm3.add_quantization_config('.*', _Op.ALL_SUPPORTED, members[0], alg)
        rm3.get_quantization_configs(op, 'scope;')
        rm3.add_quantization_config('.*', _Op.ALL_SUPPORTED, cfg, alg)
        got3 = rm3.get_quantization_configs(op, 'scope;')
        same = z3.And(z3.BoolVal(str(got3[0]) == str(got[0])),
                      c12.cfg_eq(got3[1], got[1]))
      except Inconclusive:
        raise
      except Exception as ex:  # pylint: disable=broad-except
        same = z3.BoolVal(False)
      e.check('C13.star.replacing_a_resolved_rule_resolves_like_fresh', same,
              info=[op.value, str(alg)])
    if outcome == 'accepted':
      # nothing outside the finite lattice (e.g. 5 bits, a block size, a
      # negative width) is ever accepted
      e.check('C13.accepted_set_is_within_the_materialised_lattice',
              in_list_formula(cfg, members, alg),
              info=[op.value, str(alg), c12._concrete_preview(
                  c12.J(cfg.to_dict()))])
  return h


def job_sym(job):
  st = Stats()
  cands, inconc = [], []
  for opv, algi in job.args['cases']:
    op, alg = _Op(opv), ALGS[algi]
    en = Engine(solver_timeout_ms=20000, max_paths=100000, wall_budget_s=900)
    en.explore(make_sym_harness(op, alg))
    st.merge(en.stats)
    inconc += [f'{opv}/{alg}: {x}' for x in en.inconclusive]
    seen = set()
    for v in en.violations:
      if v.name in seen:
        continue
      seen.add(v.name)
      d = {k: z3val_to_py(x) for k, x in v.model_values.items()}
      d.update(tag='sym', op=opv, alg=algi, info=v.info)
      c = Candidate(v.name, d)
      c.job = job.name
      cands.append(c)
  return JobResult(job.name, st.as_dict(), cands, inconc, {}, samples=[
      f'symbolic config fields for selectors x algorithms {job.args["cases"][:3]}'])


# ---------------------------------------------------------------------------
# materialisation of every accepted pair
# ---------------------------------------------------------------------------
OP_SKELETONS = {
    'FULLY_CONNECTED': ['single_FC', 'single_FC_NOBIAS', 'single_FC_2INPUTS',
                        'single_FC_RELU'],
    'CONV_2D': ['single_CONV_2D', 'single_CONV_2D_NOBIAS',
                'single_CONV_2D_2INPUTS'],
    'DEPTHWISE_CONV_2D': ['single_DEPTHWISE_CONV_2D',
                          'single_DEPTHWISE_CONV_2D_NOBIAS',
                          'single_DEPTHWISE_CONV_2D_2INPUTS'],
    'CONV_2D_TRANSPOSE': ['single_TRANSPOSE_CONV', 'single_TRANSPOSE_CONV_NOBIAS',
                          'single_TRANSPOSE_CONV_EMPTY_BIAS'],
    'BATCH_MATMUL': ['single_BMM', 'single_BMM_CONST', 'single_BMM_CONST_ADJY'],
    'EMBEDDING_LOOKUP': ['single_EMBEDDING_LOOKUP'],
    'ADD': ['single_ADD_CONST', 'single_ADD', 'single_ADD_SAME'],
    'SUB': ['single_SUB'], 'MUL': ['single_MUL_CONST', 'single_MUL',
                                   'single_MUL_SAME'],
    'RESHAPE': ['single_RESHAPE'], 'TRANSPOSE': ['single_TRANSPOSE'],
    'MEAN': ['single_MEAN'], 'STRIDED_SLICE': ['single_STRIDED_SLICE'],
    'AVERAGE_POOL_2D': ['single_AVERAGE_POOL_2D'],
    'SOFTMAX': ['single_SOFTMAX'], 'LOGISTIC': ['single_LOGISTIC'],
    'TANH': ['single_TANH'], 'GELU': ['single_GELU'],
    'RSQRT': ['single_RSQRT'],
    'CONCATENATION': ['single_CONCATENATION', 'single_CONCAT_SAME'],
    'SPLIT': ['single_SPLIT'], 'INPUT': ['single_FC', 'single_TANH'],
    'OUTPUT': ['single_FC', 'single_TANH'],
}


def mat_cases(tier):
  cs = []
  for i, (alg, op, cfg) in enumerate(accepted_pairs()):
    sk = OP_SKELETONS.get(op.value, [])
    if tier == 'quick' and op.value not in (
        'FULLY_CONNECTED', 'CONV_2D', 'DEPTHWISE_CONV_2D',
        'CONV_2D_TRANSPOSE'):
      sk = sk[:1]  # (the weight ops: every operand-list variant)
    for s in sk:
      cs.append((i, s))
  return cs


def oracle_mat(e, out):
  ex = out.raised
  e.check('C13.accepted_pair_materialises_without_exception', ex is None,
          info=None if ex is None else [f'{type(ex).__name__}: '
                                        f'{str(ex)[:140]}'])
  if ex is not None:
    return
  pr = oracles.well_formed(out.model)
  e.check('C13.accepted_pair_yields_well_formed_model', not pr, info=pr[:3])
  pr = oracles.qparams_prepareable(out.model)
  e.check('C13.accepted_pair_yields_parameters_the_interpreter_builder_accepts',
          not pr, info=pr[:3])
  pr = oracles.modes(out.input_model, out.model, P.resolver(out))
  e.check('C13.accepted_pair_runs_in_the_selected_mode', not pr, info=pr[:3])
  # the accepted operator really is quantized (not silently dropped)
  res = P.resolver(out)
  any_q = False
  for si, oi, scope, name in P.op_scopes(out.input_model):
    if name is not None and oracles.mode_of(res(si, oi)) != 'NOQ':
      any_q = True
  e.check('C13.accepted_pair_is_applied', any_q or out.recipe_op_is_virtual)


def pair_recipe(i):
  alg, op, cfg = accepted_pairs()[i]
  return [dict(regex='.*', operation=op.value,
               algorithm_key=getattr(alg, 'value', alg),
               op_config=c12.J(cfg.to_dict()))], op


def job_mat(job):
  tier = job.args['tier']
  fam = P.skeleton_family(tier)
  st = Stats()
  cands, inconc, samples = [], [], []
  for i, skel in job.args['cases']:
    recipe, op = pair_recipe(i)

    def orc(e, out, op=op):
      out.recipe_op_is_virtual = op.value in ('INPUT', 'OUTPUT')
      oracle_mat(e, out)
    en, cs = P.explore_case(skel, f'pair{i}', fam[skel], recipe, orc,
                            max_paths=500, wall_s=60)
    st.merge(en.stats)
    inconc += [f'pair{i}/{skel}: {x}' for x in en.inconclusive]
    for c in cs[:1]:
      c.data.update(tag='mat', pair=i, skeleton=skel)
      c.job = job.name
      cands.append(c)
    if len(samples) < 2:
      samples.append(f'{op.value} x accepted config #{i} on {skel}')
  return JobResult(job.name, st.as_dict(), cands, inconc, {}, samples=samples)


def job_readme(job):
  """Documentation oracle: README coverage table vs accepted set."""
  txt = open('/repo/README.md').read().splitlines()
  cols = None
  doc = set()
  for ln in txt:
    if ln.startswith('| **Config** |') and 'DYNAMIC_WI8_AFP32' in ln:
      cols = [c.strip() for c in ln.strip('|').split('|')]
      cols = [c for c in cols if c and c != '**Config**']
    elif cols and ln.startswith('|') and '&check;' in ln:
      cells = ln.strip().strip('|').split('|')
      op = cells[0].strip()
      for name, cell in zip(cols, cells[1:]):
        if '&check;' in cell:
          doc.add((op, name.lower()))
  import json
  pol = json.loads(default_policy.DEFAULT_JSON_POLICY)['ops_per_config']
  acc = {(op, k) for k, ops in pol.items() for op in ops
         if op not in ('INPUT', 'OUTPUT')}
  only_doc = sorted(doc - acc)
  only_acc = sorted(acc - doc)
  st = {'paths': len(doc | acc), 'decisions': len(doc | acc),
        'obligations': 1, 'discharged': 1, 'solver_calls': 0,
        'solver_time': 0.0, 'reached': {}}
  return JobResult(job.name, st, [], [], {}, samples=[
      f'README documents {len(doc)} (op, config) pairs, policy accepts '
      f'{len(acc)}; documented-only: {only_doc[:8]}; accepted-only: '
      f'{only_acc[:8]} (informational)'])


def jobs(tier, seed):
  js = [Job('readme', job_readme, {}), Job('policy', job_policy, {})]
  sym_cases = [(op.value, ai) for op in _Op if op != _Op.ALL_SUPPORTED
               for ai in (1, 2)]
  for i in range(0, len(sym_cases), 3):
    js.append(Job(f'sym:{i // 3}', job_sym, {'cases': sym_cases[i:i + 3]}))
  mc = mat_cases(tier)
  for i in range(0, len(mc), 12):
    js.append(Job(f'mat:{i // 12}', job_mat, {'tier': tier,
                                              'cases': mc[i:i + 12]}))
  return js


# ---------------------------------------------------------------------------
def replay(c):
  d = c['data']
  if d.get('tag') == 'policy':
    cfg = qtyping.OpQuantizationConfig.from_dict(d['cfg'])
    try:
      algorithm_manager.check_op_quantization_config(ALGS[1], _Op(d['op']), cfg)
      accepted = True
    except ValueError:
      accepted = False
    listed = cfg in reference_policy().get(d['op'], [])
    return accepted != listed, 'policy: ' + d['what'], (
        f"{d['op']} with {d['cfg']}: accepted={accepted}, listed in "
        f'DEFAULT_JSON_POLICY={listed}')
  if d.get('tag') == 'mat':
    recipe, op = pair_recipe(d['pair'])
    fam = P.skeleton_family('thorough')
    import copy
    import numpy as np
    from ai_edge_quantizer import quantizer as quantizer_lib
    from tensorflow.lite.tools import flatbuffer_utils
    mb = fam[d['skeleton']]
    inp = flatbuffer_utils.read_model_from_bytearray(bytearray(mb))
    try:
      q = quantizer_lib.Quantizer(mb, copy.deepcopy(recipe))
      qs = P.concrete_qsvs(inp, d.get('stats')) if q.need_calibration else None
      with np.errstate(all='ignore'):
        r = q.quantize(qs)
    except Exception as ex:  # pylint: disable=broad-except
      return True, f'accepted pair raises {type(ex).__name__}', (
          f'{op.value} with {recipe[0]["op_config"]} on {d["skeleton"]}: '
          f'{type(ex).__name__}: {ex}')
    outm = flatbuffer_utils.read_model_from_bytearray(
        bytearray(r.quantized_model))
    out = P.Outcome()
    out.input_model, out.model, out.recipe_manager = inp, outm, \
        q._recipe_manager
    pr = (oracles.well_formed(outm) + oracles.qparams_prepareable(outm) +
          oracles.modes(inp, outm, P.resolver(out)))
    if not pr:
      # the real interpreter prepares and invokes the model
      try:
        from ai_edge_litert import interpreter as tfl
        it = tfl.Interpreter(model_content=bytes(r.quantized_model))
        it.allocate_tensors()
      except Exception as ex:  # pylint: disable=broad-except
        pr.append(f'interpreter refuses the model: {str(ex)[:100]}')
    if not pr and d.get('concretize') == 'unsat':
      return 'drop', 'spurious', ''
    return bool(pr), 'accepted pair: ' + re.sub(r"'[^']*'", 'T', ' | '.join(
        pr))[:60], f'{op.value} config #{d["pair"]} on {d["skeleton"]}: {pr[:3]}'
  # symbolic acceptance witness: rebuild the config concretely
  op, alg = _Op(d['op']), ALGS[d['alg']]
  try:
    cfg = c12._build_cfg(d, 'c') or qtyping.OpQuantizationConfig()
  except ValueError as ex:
    return False, 'unconstructible', str(ex)
  what = f'{op.value} / {alg} / {cfg}'
  rm = _Facade()
  try:
    rm.add_quantization_config('.*', op, cfg, alg)
    outcome = 'accepted'
  except ValueError:
    outcome = 'refused'
  except Exception as ex:  # pylint: disable=broad-except
    return True, f'update raises {type(ex).__name__}', f'{what}: {ex}'
  rm2 = _Facade()
  try:
    rm2.add_quantization_config('.*', _Op.ALL_SUPPORTED, cfg, alg)
    got = rm2.get_quantization_configs(op, 'scope;')
  except Exception as ex:  # pylint: disable=broad-except
    return True, f'"*" path raises {type(ex).__name__}', f'{what}: {ex}'
  applied = got[0] != algorithm_manager.AlgorithmName.NO_QUANTIZE
  bad = []
  members_ = [m for a, o, m in accepted_pairs() if a == alg and o == op]
  if members_:
    rm3 = _Facade()
    rm3.add_quantization_config('.*', _Op.ALL_SUPPORTED, members_[0], alg)
    rm3.get_quantization_configs(op, 'scope;')
    rm3.add_quantization_config('.*', _Op.ALL_SUPPORTED, cfg, alg)
    g3 = rm3.get_quantization_configs(op, 'scope;')
    if str(g3[0]) != str(got[0]) or g3[1] != got[1]:
      bad.append('replacing a resolved "*" rule resolves differently from a '
                 f'fresh manager: {g3[0]} vs {got[0]}')
  if applied != (outcome == 'accepted'):
    bad.append(f'specific update {outcome} but "*" resolution applied='
               f'{applied}')
  if outcome == 'accepted':
    members = [m for a, o, m in accepted_pairs() if a == alg and o == op]
    if _canon(c12.J(cfg.to_dict()), alg) not in [
        _canon(c12.J(m.to_dict()), alg) for m in members]:
      bad.append('accepted although outside the enumerated lattice')
  return bool(bad), 'acceptance: ' + (bad[0][:50] if bad else ''), \
      f'{what}: {bad}'
