"""C09 - calibration statistics are exact, order-faithful and resumable.

The real Quantizer.calibrate / Calibrator / min_max_calibrate /
moving_average_update run with the LiteRT interpreter replaced by a fake whose
runtime tensors are fresh symbolic arrays per (sample, tensor).  In the UF back
end every recorded min/max is compared, as a term, with the reference fold
written from the property text; resume and non-modification are checked on the
same symbolic samples.
"""
from __future__ import annotations

import copy
import numpy as np
import z3

from props import pipeline as P
from props.common import Candidate, Job, JobResult
from symx import backends as B
from symx import fakeinterp, oracles, patch, skeletons, spec, symnp
from symx.core import Engine, Stats, Inconclusive, z3val_to_py
from symx.symnp import SymArray

from ai_edge_quantizer import calibrator, qtyping
from ai_edge_quantizer import quantizer as quantizer_lib
from ai_edge_quantizer.algorithms.uniform_quantize import naive_min_max_quantize as nmm
from ai_edge_quantizer.algorithms.utils import min_max_quantize_utils as mmu
from ai_edge_quantizer.utils import calibration_utils, tfl_flatbuffer_utils
from ai_edge_quantizer.utils import tfl_interpreter_utils
from tensorflow.lite.tools import flatbuffer_utils

PROP = 'C09'
LEVEL = 'model_checking'
USES_FAKE_INTERPRETER = True
FUNCS = [quantizer_lib.Quantizer.calibrate, calibrator.Calibrator.calibrate,
         calibrator.Calibrator._update_qsvs,
         calibrator.Calibrator._initialize_model_qsvs,
         calibrator.Calibrator.load_model_qsvs,
         calibration_utils.moving_average_update,
         calibration_utils._update_moving_average, nmm.min_max_calibrate,
         nmm.init_qsvs, mmu.init_tensor_min_max,
         tfl_interpreter_utils.invoke_interpreter_signature,
         tfl_interpreter_utils.get_tensor_name_to_content_map,
         tfl_interpreter_utils.get_tensor_data]
ASSUMPTIONS = [
    'ai_edge_litert.interpreter replaced by symx.fakeinterp (same Python API, '
    'validated against the real interpreter on the 36 fixture models): every '
    'runtime tensor holds a fresh arbitrary array per (sample, tensor), '
    'signature inputs hold the fed data, constants their buffer; that the '
    'interpreter\'s preserved tensors are the true tensors of the float model '
    'is FFI and outside the claim',
    'float operations uninterpreted (UF), add/mul commutative: decides which '
    'element meets which, the order of the folds, first-sample rule, '
    'smoothing operands',
    'datasets of n <= 3 samples (thorough 4), every split into two sessions; '
    'longer datasets by induction on the fold (informal)',
]
BOUNDS = {
    'quick': {'samples': [1, 2, 3], 'splits': 'every split point',
              'skeletons': 12, 'recipes': 'a8w8, a16w8, selective'},
    'thorough': {'samples': [1, 2, 3, 4], 'splits': 'every split point',
                 'skeletons': 'all', 'recipes': 'same'},
}
REACH = {'cal': ['calibrated']}
_Op = qtyping.TFLOperationName

SKELETONS_QUICK = ['single_FC', 'single_ADD_CONST', 'single_RESHAPE',
                   'single_EMBEDDING_LOOKUP', 'single_SPLIT',
                   'chain_fc_reshape_softmax', 'tensor_2_consumers',
                   'intermediate_is_output', 'tanh_concat_same',
                   'const_shared_by_two_ops', 'two_subgraphs_independent',
                   'two_subgraphs_shared_buffer',
                   'two_subgraphs_signatures_reordered']


def signatures(model):
  out = []
  for sd in model.signatureDefs or []:
    k = sd.signatureKey.decode() if isinstance(sd.signatureKey, bytes) \
        else sd.signatureKey
    out.append((k, sd))
  return out


def sample_inputs(model, sd, k):
  sg = model.subgraphs[sd.subgraphIndex]
  ins = {}
  if fakeinterp.STATE.get('content') is not None and getattr(
      fakeinterp.STATE['content'], '__name__', '') == '_content':
    for tm in sd.inputs or []:
      t = sg.tensors[tm.tensorIndex]
      nm = tm.name.decode() if isinstance(tm.name, bytes) else tm.name
      dt = fakeinterp.NP.get(t.type, np.float32)
      ins[nm] = (np.ones(tuple(t.shape)) * (k + 1)).astype(dt)
    return ins
  for tm in sd.inputs or []:
    t = sg.tensors[tm.tensorIndex]
    nm = tm.name.decode() if isinstance(tm.name, bytes) else tm.name
    dt = fakeinterp.NP.get(t.type, np.float32)
    ins[nm] = SymArray.fresh(f'in_k{k}_{nm}', tuple(t.shape), dt)
  return ins


def dataset(model, sd, ks):
  for k in ks:
    fakeinterp.STATE['sample'] = k
    yield sample_inputs(model, sd, k)


def calibrate(model_bytes, recipe, key, ks, previous=None, q=None):
  if q is None:
    q = quantizer_lib.Quantizer(model_bytes, copy.deepcopy(recipe))
  model = flatbuffer_utils.read_model_from_bytearray(bytearray(model_bytes))
  sd = dict(signatures(model))[key]
  return q.calibrate(dataset(model, sd, ks), key, previous)


# ---------------------------------------------------------------------------
# reference
# ---------------------------------------------------------------------------
def content_of(model, sd, si, ti, k):
  """What the (fake) interpreter holds for runtime tensor ti after sample k."""
  sg = model.subgraphs[si]
  t = sg.tensors[ti]
  for tm in sd.inputs or []:
    if tm.tensorIndex == ti and sd.subgraphIndex == si:
      nm = tm.name.decode() if isinstance(tm.name, bytes) else tm.name
      dt = fakeinterp.NP.get(t.type, np.float32)
      return SymArray.fresh(f'in_k{k}_{nm}', tuple(t.shape), dt,
                            register=False)
  return fakeinterp.default_content(
      '', k, si, ti, oracles.tname(t), tuple(int(x) for x in t.shape),
      np.dtype(fakeinterp.NP.get(t.type, np.float32)))


def ref_minmax(arr):
  """Reference per-sample min / max of an array, as 1-element lists."""
  be = symnp.backend()
  dt = arr.dtype
  els = arr.terms()
  f = (lambda op, a, b: be.fbin(op, dt, a, b)) if dt.kind == 'f' else (
      lambda op, a, b: be.ibin(op, dt, a, b))
  mn, mx = els[0], els[0]
  for x in els[1:]:
    mn = f('minimum', mn, x)
    mx = f('maximum', mx, x)
  return mn, mx


def ref_ema(old, new):
  """0.95 * old + (1 - 0.95) * new with NumPy's promotion rules (an integer
  tensor becomes float64 from the second sample on). 0-d SymArrays."""
  return 0.95 * old + (1.0 - 0.95) * new


def selected_runtime_tensors(model, rm, si):
  """(tensor index) of runtime tensors of operators the recipe quantizes in
  subgraph si, incl. the virtual INPUT/OUTPUT operators."""
  sg = model.subgraphs[si]
  sel = []
  ops = [(op, tfl_flatbuffer_utils.TFL_OP_CODE_TO_NAME.get(
      model.operatorCodes[op.opcodeIndex].builtinCode)) for op in sg.operators]
  ops += [(qtyping.IOOperator([], list(sg.inputs), _Op.INPUT), 'INPUT'),
          (qtyping.IOOperator(list(sg.outputs), [], _Op.OUTPUT), 'OUTPUT')]
  for op, name in ops:
    if name is None:
      continue
    scope = ''.join(oracles.tname(sg.tensors[o]) + ';' for o in op.outputs
                    if o != -1)
    alg, _ = rm.get_quantization_configs(_Op(name), scope)
    if getattr(alg, 'value', alg) == 'no_quantize':
      continue
    for i in list(op.inputs) + list(op.outputs):
      if i != -1 and not oracles.has_data(model, sg.tensors[i]) and i not in sel:
        sel.append(i)
  return sel


def reference_stats(model, rm, sd, ks, start=None):
  si = sd.subgraphIndex
  out = {}
  for ti in selected_runtime_tensors(model, rm, si):
    t = model.subgraphs[si].tensors[ti]
    nm = oracles.tname(t)
    cur = None if start is None else start.get(nm)
    dt = np.dtype(fakeinterp.NP.get(t.type, np.float32))
    for k in ks:
      mn, mx = ref_minmax(content_of(model, sd, si, ti, k))
      mn, mx = SymArray((), dt, [mn]), SymArray((), dt, [mx])
      if cur is None:
        cur = (mn, mx)   # the first sample initialises
      else:
        cur = (ref_ema(cur[0], mn), ref_ema(cur[1], mx))
    out[nm] = (cur[0].terms()[0], cur[1].terms()[0])
  return out


def term_of(x):
  arr = x if isinstance(x, SymArray) else SymArray.from_numpy(np.asarray(x))
  if arr.size != 1:
    return None
  return symnp.backend().lift(arr.dtype, arr.el[0])


def snapshot(res):
  return {k: {kk: (id(vv), vv) for kk, vv in v.items()} for k, v in res.items()}


def same_as_snapshot(res, snap):
  if set(res) != set(snap):
    return False
  for k, v in res.items():
    if set(v) != set(snap[k]):
      return False
    for kk, vv in v.items():
      i, old = snap[k][kk]
      if vv is not old:
        if isinstance(vv, SymArray) or isinstance(old, SymArray):
          if not (isinstance(vv, SymArray) and isinstance(old, SymArray)
                  and vv.shape == old.shape and all(
                      (a is b) or (z3.is_expr(a) and z3.is_expr(b) and a.eq(b))
                      or (B.is_conc(a) and B.is_conc(b) and a == b)
                      for a, b in zip(vv.el, old.el))):
            return False
        elif not np.array_equal(np.asarray(vv), np.asarray(old)):
          return False
  return True


def stats_equal(e, name, got, want_terms, tag):
  """got: result dict; want_terms: name -> (min term, max term)."""
  for nm, (mn, mx) in want_terms.items():
    if nm not in got or 'min' not in got[nm] or 'max' not in got[nm]:
      e.check(name, False, info=[tag, nm, 'missing'])
      continue
    g0, g1 = term_of(got[nm]['min']), term_of(got[nm]['max'])
    if g0 is None or g1 is None:
      e.check(name, False, info=[tag, nm, 'not a single value'])
      continue
    rank = len([1 for _ in got[nm]['min'].shape]) if hasattr(
        got[nm]['min'], 'shape') else 0
    if g0.sort() != mn.sort() or g1.sort() != mx.sort():
      e.check(name, False, info=[tag, nm, f'dtype {g0.sort()} != {mn.sort()}'])
      continue
    e.check(name, z3.And(g0 == mn, g1 == mx), info=[tag, nm])


def constants_ok(model, rm, res):
  """Every constant of a selected op has its true per-tensor / per-channel
  min/max (concrete)."""
  pr = []
  for si, sg in enumerate(model.subgraphs):
    for oi, op in enumerate(sg.operators):
      name = tfl_flatbuffer_utils.TFL_OP_CODE_TO_NAME.get(
          model.operatorCodes[op.opcodeIndex].builtinCode)
      if name is None:
        continue
      scope = ''.join(oracles.tname(sg.tensors[o]) + ';' for o in op.outputs
                      if o != -1)
      alg, cfg = rm.get_quantization_configs(_Op(name), scope)
      if getattr(alg, 'value', alg) != 'min_max_uniform_quantize':
        continue
      for k, i in enumerate(op.inputs):
        if i == -1 or not oracles.has_data(model, sg.tensors[i]):
          continue
        t = sg.tensors[i]
        nm = oracles.tname(t)
        if nm not in res:
          pr.append(f'{nm}: constant of a selected op has no statistics')
          continue
        data = np.frombuffer(oracles.buffer_bytes(model, t),
                             fakeinterp.NP[t.type]).reshape(t.shape)
        wc = cfg.weight_tensor_config
        qdim = None
        if wc is not None and getattr(wc.granularity, 'value',
                                      wc.granularity) == 'CHANNELWISE':
          if name in spec.WEIGHT_OPS or name == 'BATCH_MATMUL':
            adj = bool(getattr(op.builtinOptions, 'adjY', False)) \
                if name == 'BATCH_MATMUL' else False
            if name in ('FULLY_CONNECTED', 'CONV_2D', 'DEPTHWISE_CONV_2D',
                        'CONV_2D_TRANSPOSE', 'EMBEDDING_LOOKUP',
                        'BATCH_MATMUL'):
              qdim = spec.weight_qdim(name, len(t.shape), adj)
        axes = None if qdim is None else tuple(
            a for a in range(data.ndim) if a != qdim)
        wmin = np.min(data, axis=axes, keepdims=True)
        wmax = np.max(data, axis=axes, keepdims=True)
        g = res[nm]
        # a constant shared by several ops keeps the statistics of the first
        if not (np.array_equal(np.asarray(g['min']), wmin)
                and np.array_equal(np.asarray(g['max']), wmax)):
          tmin = np.min(data, keepdims=True)
          if not (np.asarray(g['min']).size == 1 and qdim is not None
                  and False):
            pr.append(f'{nm}: constant statistics are not its true '
                      f'{"per-channel" if qdim is not None else "per-tensor"} '
                      'min/max')
  return pr


def make_harness(model_bytes, recipe, key, n, part='all'):
  def h(e):
    be = symnp.set_backend(B.UF())
    be.reset()
    fakeinterp.STATE.update(sample=0, tag='', content=None)
    model = flatbuffer_utils.read_model_from_bytearray(bytearray(model_bytes))
    sd = dict(signatures(model))[key]
    q0 = quantizer_lib.Quantizer(model_bytes, copy.deepcopy(recipe))
    rm = q0._recipe_manager
    ks = list(range(n))
    with patch.symbolic_numpy(), patch.rebind(
        'ai_edge_quantizer.utils.tfl_interpreter_utils', 'tfl',
        fakeinterp.Module):
      try:
        full = calibrate(model_bytes, recipe, key, ks)
      except Inconclusive:
        raise
      except Exception as ex:  # pylint: disable=broad-except
        e.reach('calibrated')
        e.check('C09.calibrate_does_not_raise', False,
                info=[f'{type(ex).__name__}: {str(ex)[:120]}', key])
        return
      e.reach('calibrated')
      want = reference_stats(model, rm, sd, ks)
      stats_equal(e, 'C09.single_pass.ema_of_true_per_sample_minmax_in_order',
                  full, want, f'{key} n={n}')
      pr = constants_ok(model, rm, full)
      e.check('C09.constants.true_min_max', not pr, info=pr[:3])
      # resume: every split point
      for cut in (range(1, n) if part != 'history' else ()):
        d1, d2 = ks[:cut], ks[cut:]
        r1 = calibrate(model_bytes, recipe, key, d1)
        snap = snapshot(r1)
        r2 = calibrate(model_bytes, recipe, key, d2, previous=r1)
        e.check('C09.resume.previous_result_not_modified',
                same_as_snapshot(r1, snap), info=[key, cut])
        stats_equal(e, 'C09.resume.equals_single_pass', r2, want,
                    f'{key} n={n} cut={cut}')
        e.check('C09.resume.same_keys_as_single_pass',
                set(r2) == set(full), info=[key, cut,
                                            sorted(set(r2) ^ set(full))[:4]])
      if part == 'main':
        return
      # histories on ONE Quantizer object: an earlier calibration (on other
      # samples) must not leak into a later fresh one, a resumed session on
      # the same object equals the single pass, and results handed out
      # earlier are not rewritten by later calls
      try:
        qs = quantizer_lib.Quantizer(model_bytes, copy.deepcopy(recipe))
        other = [n + k for k in ks]
        ra = calibrate(model_bytes, recipe, key, other, q=qs)
        snap_a = snapshot(ra)
        rb = calibrate(model_bytes, recipe, key, ks, q=qs)
        stats_equal(e, 'C09.history.fresh_calibration_on_used_quantizer_exact',
                    rb, want, f'{key} n={n} after calibrate on other samples')
        e.check('C09.history.earlier_result_not_modified',
                same_as_snapshot(ra, snap_a), info=[key, 'second calibrate'])
        if n > 1:
          cut = n // 2
          qs = quantizer_lib.Quantizer(model_bytes, copy.deepcopy(recipe))
          r1 = calibrate(model_bytes, recipe, key, ks[:cut], q=qs)
          snap = snapshot(r1)
          r2 = calibrate(model_bytes, recipe, key, ks[cut:], previous=r1, q=qs)
          e.check('C09.history.earlier_result_not_modified',
                  same_as_snapshot(r1, snap), info=[key, 'resume same object'])
          stats_equal(e, 'C09.history.resume_on_same_quantizer_equals_single_pass',
                      r2, want, f'{key} n={n} cut={cut} same object')
        # sessions over DIFFERENT signatures: a result that only covers
        # another signature is continued with this one (its entries for this
        # signature's tensors are still empty)
        others = [k for k, _ in signatures(model) if k != key]
        if others:
          r_o = calibrate(model_bytes, recipe, others[0], ks)
          snap_o = snapshot(r_o)
          for rep in (1, 2):  # the same previous result continued twice
            r2 = calibrate(model_bytes, recipe, key, ks, previous=r_o)
            e.check('C09.resume.previous_result_not_modified',
                    same_as_snapshot(r_o, snap_o),
                    info=[key, f'previous result covers {others[0]}', rep])
            stats_equal(e, 'C09.history.continuing_another_signatures_result',
                        r2, want, f'{key} after {others[0]} n={n} #{rep}')
      except Inconclusive:
        raise
      except Exception as ex:  # pylint: disable=broad-except
        e.check('C09.history.calibrate_does_not_raise', False,
                info=[f'{type(ex).__name__}: {str(ex)[:120]}', key])
  return h


def cal_recipes(tier):
  fam = {'a8w8': None, 'a16w8': None}
  import json, os
  with open(os.path.join(P.RECIPE_DIR, 'default_a8w8_recipe.json')) as f:
    fam['a8w8'] = json.load(f)
  with open(os.path.join(P.RECIPE_DIR, 'default_a16w8_recipe.json')) as f:
    fam['a16w8'] = json.load(f)
  return fam


def case_list(tier):
  fam = dict(P.skeleton_family(tier))
  # (a model with one tensor name in two subgraphs is refused by quantize()
  # by design; its name-keyed calibration result is not meaningful)
  names = SKELETONS_QUICK if tier == 'quick' else [
      k for k in fam if 'same_constant_name' not in k]
  if tier == 'thorough':
    dags = P.skeleton_family('thorough_dags')
    extra = list(dags)[:80]
    fam.update({k: dags[k] for k in extra})
    names = names + extra
  out = []
  for skel in names:
    mb = fam[skel]
    model = flatbuffer_utils.read_model_from_bytearray(bytearray(mb))
    recs = dict(cal_recipes(tier))
    # selective: static-range on the last op only
    sc = P.op_scopes(model)
    import re
    recs['only_last_op_SRQ8'] = [P.rule(
        '^' + re.escape(sc[-1][2]) + '$', '*', 'SRQ8')]
    for key, _ in signatures(model):
      for rname in recs:
        for n in BOUNDS[tier]['samples']:
          if n < max(BOUNDS[tier]['samples']) and rname != 'a8w8':
            continue
          out.append((skel, rname, key, n))
  if tier == 'quick':
    # every other skeleton of the family once: a8w8, largest dataset
    for skel in fam:
      if skel in names or 'same_constant_name' in skel:
        continue
      model = flatbuffer_utils.read_model_from_bytearray(bytearray(fam[skel]))
      for key, _ in signatures(model):
        out.append((skel, 'a8w8', key, max(BOUNDS[tier]['samples'])))
  return out


def _recipe(skel, rname, tier):
  model = flatbuffer_utils.read_model_from_bytearray(
      bytearray(P.model_bytes_of(skel, tier)))
  recs = dict(cal_recipes(tier))
  import re
  sc = P.op_scopes(model)
  recs['only_last_op_SRQ8'] = [P.rule('^' + re.escape(sc[-1][2]) + '$', '*',
                                      'SRQ8')]
  # an earlier static-range rule, then a weight-only catch-all that the
  # activation-only ops cannot take (they keep the static-range rule)
  recs['srq8_then_catchall_WO'] = [P.rule('(.*)', '*', 'SRQ8'),
                                   P.rule('.*', '*', 'WO')]
  # an operator-type selector
  recs['optype_FC_SRQ8'] = [P.rule('.*', 'FULLY_CONNECTED', 'SRQ8')]
  return recs[rname]


def job_cal(job):
  tier = job.args['tier']
  st = Stats()
  cands, inconc, samples = [], [], []
  for skel, rname, key, n in job.args['cases']:
    # the single pass + resume obligations and the history scenarios are
    # explored as two cases (each with its own path cap)
    en = Engine(solver_timeout_ms=30000, max_paths=24, wall_budget_s=60)
    en.stop_path_on_violation = True
    en.explore(make_harness(P.model_bytes_of(skel, tier),
                            _recipe(skel, rname, tier), key, n, 'main'),
               stop_on_violation=True)
    if not en.violations:
      en2 = Engine(solver_timeout_ms=30000, max_paths=24, wall_budget_s=60)
      en2.stop_path_on_violation = True
      en2.explore(make_harness(P.model_bytes_of(skel, tier),
                               _recipe(skel, rname, tier), key, n, 'history'),
                  stop_on_violation=True)
      en.stats.merge(en2.stats) if hasattr(en.stats, 'merge') else None
      en.violations += en2.violations
      en.inconclusive += en2.inconclusive
    if en.violations:
      # a violation was found and is replayed; unexplored paths do not
      # matter for the verdict of this case
      en.inconclusive = []
    st.merge(en.stats)
    inconc += [f'{skel}/{rname}/{key}/{n}: {x}' for x in en.inconclusive]
    for v in en.violations[:1]:
      c = Candidate(v.name, {'skeleton': skel, 'recipe': rname, 'key': key,
                             'n': n, 'info': v.info,
                             'stats': {k: z3val_to_py(x) for k, x in
                                       v.model_values.items()}})
      c.job = job.name
      cands.append(c)
    if len(samples) < 2:
      samples.append(f'{skel} x {rname} signature {key}: {n} symbolic '
                     f'samples, every split; {en.stats.obligations} term '
                     'obligations')
  return JobResult(job.name, st.as_dict(), cands, inconc, {}, samples=samples)


def jobs(tier, seed):
  cs = case_list(tier)
  js = []
  chunk = 6
  for i in range(0, len(cs), chunk):
    js.append(Job(f'cal:{i // chunk}', job_cal,
                  {'tier': tier, 'cases': cs[i:i + chunk]}))
  return js


# ---------------------------------------------------------------------------
# replay on the REAL interpreter through the public API: concrete random
# samples, statistics recomputed by the check from its own interpreter run
# ---------------------------------------------------------------------------
def replay(c):
  d = c['data']
  tier = 'thorough'
  mb = P.model_bytes_of(d['skeleton'], tier)
  recipe = _recipe(d['skeleton'], d['recipe'], tier)
  key, n = d['key'], d['n']
  model = flatbuffer_utils.read_model_from_bytearray(bytearray(mb))
  sd = dict(signatures(model))[key]
  sg = model.subgraphs[sd.subgraphIndex]
  rng = np.random.default_rng(3)
  data = []
  for k in range(n):
    s = {}
    for tm in sd.inputs:
      t = sg.tensors[tm.tensorIndex]
      nm = tm.name.decode() if isinstance(tm.name, bytes) else tm.name
      stats = d.get('stats') or {}
      nel = int(np.prod(t.shape)) if len(t.shape) else 1
      wit = [stats.get(f'in_k{k}_{nm}_{i}' if len(t.shape) else
                       f'in_k{k}_{nm}') for i in range(nel)]
      if t.type == 0 and all(isinstance(w, dict) for w in wit):
        # the solver's witness for the signature inputs of this sample
        from symx.core import fpbits_to_float
        arr = np.array([fpbits_to_float(w) for w in wit], np.float32)
        arr = np.where(np.isfinite(arr), arr, 0.0).astype(np.float32)
        s[nm] = arr.reshape(tuple(t.shape))
      elif t.type == 0:
        s[nm] = (rng.normal(size=tuple(t.shape)) * (k + 1)).astype(np.float32)
      else:
        s[nm] = rng.integers(0, 2, size=tuple(t.shape)).astype(
            fakeinterp.NP[t.type])
    data.append(s)
  q = quantizer_lib.Quantizer(mb, copy.deepcopy(recipe))
  try:
    full = q.calibrate(data, key)
  except Exception as ex:  # pylint: disable=broad-except
    wc = ('calibrating a signature of a multi-subgraph model reads the '
          'tensors of subgraph 0 only' if isinstance(ex, KeyError)
          and len(model.subgraphs) > 1 else f'raises {type(ex).__name__}')
    return True, wc, (f"skeleton={d['skeleton']} recipe={d['recipe']} "
                      f"signature={key}: {type(ex).__name__}: {ex}")
  # own interpreter run for the true per-sample statistics
  from ai_edge_litert import interpreter as tfl
  it = tfl.Interpreter(model_content=mb, experimental_preserve_all_tensors=True,
                       experimental_op_resolver_type=tfl.OpResolverType.
                       BUILTIN_WITHOUT_DEFAULT_DELEGATES)
  it.allocate_tensors()
  runner = it.get_signature_runner(key)
  rm = q._recipe_manager
  sel = selected_runtime_tensors(model, rm, sd.subgraphIndex)
  cur = {}
  for s in data:
    it.reset_all_variables()  # every sample runs on a freshly reset model
    runner(**s)
    for ti in sel:
      x = it.get_tensor(ti, sd.subgraphIndex)
      mn, mx = np.min(x, keepdims=True), np.max(x, keepdims=True)
      nm = oracles.tname(sg.tensors[ti])
      if nm not in cur:
        cur[nm] = (mn, mx)
      else:
        cur[nm] = (0.95 * cur[nm][0] + (1.0 - 0.95) * mn,
                   0.95 * cur[nm][1] + (1.0 - 0.95) * mx)
  bad = []
  for nm, (mn, mx) in cur.items():
    if nm not in full or not (np.array_equal(np.asarray(full[nm]['min']), mn)
                              and np.array_equal(np.asarray(full[nm]['max']),
                                                 mx)):
      bad.append(f'{nm}: recorded {full.get(nm)} expected min={mn} max={mx}')
  for cut in range(1, n):
    q1 = quantizer_lib.Quantizer(mb, copy.deepcopy(recipe))
    r1 = q1.calibrate(data[:cut], key)
    before = copy.deepcopy(r1)
    r2 = quantizer_lib.Quantizer(mb, copy.deepcopy(recipe)).calibrate(
        data[cut:], key, r1)
    for k in before:
      for kk in before[k]:
        if not np.array_equal(np.asarray(before[k][kk]),
                              np.asarray(r1[k][kk])):
          bad.append(f'previous result modified at {k}/{kk}')
    for nm in full:
      for kk in full[nm]:
        if nm not in r2 or not np.array_equal(np.asarray(full[nm][kk]),
                                              np.asarray(r2[nm][kk])):
          bad.append(f'resume at {cut}: {nm}/{kk} differs from single pass')
  # one Quantizer object used for several sessions
  try:
    qs = quantizer_lib.Quantizer(mb, copy.deepcopy(recipe))
    other = [{k: (v * 3 + 1).astype(v.dtype) if v.dtype.kind == 'f' else v
              for k, v in s.items()}
             for s in data]
    ra = qs.calibrate(other, key)
    before = copy.deepcopy(ra)
    rb = qs.calibrate(data, key)
    for nm in full:
      for kk in full[nm]:
        if nm not in rb or not np.array_equal(np.asarray(full[nm][kk]),
                                              np.asarray(rb[nm][kk])):
          bad.append(f'history: fresh calibrate on a used Quantizer: {nm}/{kk} '
                     'differs from a fresh Quantizer')
    for k in before:
      for kk in before[k]:
        if not np.array_equal(np.asarray(before[k][kk]), np.asarray(ra[k][kk])):
          bad.append(f'history: earlier result modified at {k}/{kk}')
    if n > 1:
      cut = n // 2
      qs = quantizer_lib.Quantizer(mb, copy.deepcopy(recipe))
      r1 = qs.calibrate(data[:cut], key)
      r2 = qs.calibrate(data[cut:], key, r1)
      for nm in full:
        for kk in full[nm]:
          if nm not in r2 or not np.array_equal(np.asarray(full[nm][kk]),
                                                np.asarray(r2[nm][kk])):
            bad.append(f'history: resume on the same Quantizer: {nm}/{kk} '
                       'differs from single pass')
  except Exception as ex:  # pylint: disable=broad-except
    bad.append(f'history: calibrate on a used Quantizer raises '
               f'{type(ex).__name__}: {ex}')
  others = [(k, s) for k, s in signatures(model) if k != key]
  if others and not bad:
    try:
      ok_, sdo = others[0]
      sgo = model.subgraphs[sdo.subgraphIndex]
      odata = []
      for k in range(n):
        s = {}
        for tm in sdo.inputs:
          t = sgo.tensors[tm.tensorIndex]
          nm = tm.name.decode() if isinstance(tm.name, bytes) else tm.name
          s[nm] = (rng.normal(size=tuple(t.shape)) * (k + 2)).astype(
              np.float32) if t.type == 0 else rng.integers(
                  0, 2, size=tuple(t.shape)).astype(fakeinterp.NP[t.type])
        odata.append(s)
      r_o = quantizer_lib.Quantizer(mb, copy.deepcopy(recipe)).calibrate(
          odata, ok_)
      before = copy.deepcopy(r_o)
      for rep in (1, 2):
        r2 = quantizer_lib.Quantizer(mb, copy.deepcopy(recipe)).calibrate(
            data, key, r_o)
        for k in before:
          if set(before[k]) != set(r_o[k]) or any(
              not np.array_equal(np.asarray(before[k][kk]),
                                 np.asarray(r_o[k][kk])) for kk in before[k]):
            bad.append(f'history: previous result (of signature {ok_}) '
                       f'modified at {k}')
            break
        for nm, (mn, mx) in cur.items():
          if nm not in r2 or not (
              np.array_equal(np.asarray(r2[nm].get('min')), mn)
              and np.array_equal(np.asarray(r2[nm].get('max')), mx)):
            bad.append(f'history: continuing the result of signature {ok_} '
                       f'(#{rep}): {nm} differs from the true statistics')
            break
    except Exception as ex:  # pylint: disable=broad-except
      bad.append(f'history: continuing another signature raises '
                 f'{type(ex).__name__}: {ex}')
  return bool(bad), 'statistics: ' + (bad[0].split(':')[0] if bad else ''), (
      f"skeleton={d['skeleton']} recipe={d['recipe']} signature={key} "
      f'n={n}: {bad[:3]}')
