"""C14 - quantize/calibrate are pure: no input mutation, no history dependence.

Symbolic statistics (UF): the real Quantizer API is driven through short call
histories on one or two Quantizer objects that share one calibration-result
object; after every call the caller-owned arguments are compared with a
snapshot (identity + terms), and the rewritten model of the last quantize() is
compared - structure concretely, quantization parameters and constant contents
as terms decided by z3 - with the one a fresh Quantizer produces from equal
arguments.
"""
from __future__ import annotations

import copy
import json
import numpy as np
import z3

from props import c09, c19, pipeline as P
from props.common import Candidate, Job, JobResult
from symx import backends as B
from symx import fakeinterp, oracles, patch, symnp
from symx.core import Engine, Stats, Inconclusive, z3val_to_py
from symx.symnp import SymArray

from ai_edge_quantizer import calibrator, model_modifier, params_generator
from ai_edge_quantizer import quantizer as quantizer_lib
from ai_edge_quantizer.algorithms.utils import min_max_quantize_utils as mmu
from tensorflow.lite.tools import flatbuffer_utils
import types

PROP = 'C14'
patch.snapshot_process_state()
LEVEL = 'model_checking'
USES_FAKE_INTERPRETER = True
FUNCS = [quantizer_lib.Quantizer.quantize, quantizer_lib.Quantizer.calibrate,
         quantizer_lib.Quantizer._get_quantization_params,
         quantizer_lib.Quantizer._get_quantized_model,
         params_generator.ParamsGenerator.generate_quantization_parameters,
         mmu._materialize_standard_op_with_same_as_input_scale,
         mmu.materialize_op_with_output_activation_constraint,
         calibrator.Calibrator.load_model_qsvs,
         model_modifier.ModelModifier.modify_model]
ASSUMPTIONS = P.ASSUMPTIONS_COMMON + [
    'histories: the enumerated scenarios (<= 3 API calls on 1-2 Quantizer '
    'objects over 2 recipes sharing one calibration result object)',
    'fresh-process and PYTHONHASHSEED independence: process-level '
    'nondeterminism is not a symbolic input; the consumer grouping iterates '
    'sets of small ints whose order does not depend on the hash seed (noted, '
    'not proved); a concrete two-process sha256 comparison runs in the '
    'thorough tier',
    'validate() purity is covered with C18 (it needs real model bytes)',
]
BOUNDS = {
    'quick': {'skeletons': 8, 'recipe pairs': '(A,B) over a8w8 / a16w8 / '
              'selective SRQ8 / weight-only', 'scenarios': 5},
    'thorough': {'skeletons': 'all with a same-scale or fixed-range op',
                 'recipe pairs': 'same', 'scenarios': 5},
}
REACH = {'hist': ['history'], 'bytes': ['bytes'], 'hashseed': ['hashseed']}
SKELS = ['chain_fc_reshape_softmax', 'softmax_reshape', 'chain_reshape_reshape',
         'tanh_concat_same', 'chain_tanh_fc', 'split_add',
         'intermediate_is_output', 'two_subgraphs_independent']


def snap_qsvs(q):
  return {k: {kk: (vv, id(vv)) for kk, vv in v.items()} for k, v in q.items()}


def qsvs_changed(q, snap):
  """list of differences between q and its snapshot (identity or terms)."""
  diffs = []
  if set(q) != set(snap):
    diffs.append(f'keys changed: {sorted(set(q) ^ set(snap))[:3]}')
  for k in snap:
    if k not in q:
      continue
    if set(q[k]) != set(snap[k]):
      diffs.append(f'{k}: inner keys changed')
      continue
    for kk, (old, oid) in snap[k].items():
      new = q[k][kk]
      if new is old:
        continue
      same = False
      if isinstance(new, SymArray) and isinstance(old, SymArray):
        same = new.shape == old.shape and all(
            (a is b) or (z3.is_expr(a) and z3.is_expr(b) and a.eq(b))
            for a, b in zip(new.el, old.el))
      elif not isinstance(new, SymArray) and not isinstance(old, SymArray):
        try:
          same = np.array_equal(np.asarray(new), np.asarray(old)) and \
              np.asarray(new).shape == np.asarray(old).shape
        except Exception:  # pylint: disable=broad-except
          same = False
      if not same:
        diffs.append(f'{k}/{kk} rewritten')
  return diffs


def capture_quantize(q, res):
  """q.quantize(res) with the serializer intercepted -> (ModelT | exception)."""
  captured = []
  stub = types.SimpleNamespace(
      read_model_from_bytearray=flatbuffer_utils.read_model_from_bytearray,
      convert_object_to_bytearray=lambda m: captured.append(m) or bytearray(
          b'captured'))
  with patch.rebind('ai_edge_quantizer.model_modifier', 'flatbuffer_utils',
                    stub):
    try:
      q.quantize(res)
      return captured[0]
    except Inconclusive:
      raise
    except Exception as ex:  # pylint: disable=broad-except
      return ex


def models_equal(e, name, a, b, tag):
  if isinstance(a, Exception) or isinstance(b, Exception):
    same = isinstance(a, Exception) and isinstance(b, Exception) and type(
        a) is type(b) and str(a) == str(b)
    e.check(name, same, info=[tag, f'{type(a).__name__}: {str(a)[:80]}',
                              f'{type(b).__name__}: {str(b)[:80]}'])
    return
  if len(a.subgraphs) != len(b.subgraphs):
    e.check(name, False, info=[tag, 'subgraph count'])
    return
  single = types.SimpleNamespace
  for si in range(len(a.subgraphs)):
    view = single(subgraphs=[b.subgraphs[si]], buffers=b.buffers,
                  operatorCodes=b.operatorCodes)
    pr, sym = c19.compare_subgraphs(e, a, view, si, None)
    e.check(name, not pr, info=[tag] + pr[:3])
    if sym:
      e.check(name, z3.And(*sym), info=[tag, 'parameters/contents differ'])
  sa = [(s.signatureKey, [(t.name, t.tensorIndex) for t in s.inputs],
         [(t.name, t.tensorIndex) for t in s.outputs])
        for s in (a.signatureDefs or [])]
  sb = [(s.signatureKey, [(t.name, t.tensorIndex) for t in s.inputs],
         [(t.name, t.tensorIndex) for t in s.outputs])
        for s in (b.signatureDefs or [])]
  e.check(name, sa == sb, info=[tag, 'signature defs differ'])


def recipes(model_bytes):
  import os, re
  out = {}
  for f in ('default_a8w8_recipe.json', 'default_a16w8_recipe.json'):
    with open(os.path.join(P.RECIPE_DIR, f)) as fh:
      out[f.split('_')[1]] = json.load(fh)
  model = flatbuffer_utils.read_model_from_bytearray(bytearray(model_bytes))
  sc = P.op_scopes(model)
  out['last_op_SRQ8'] = [P.rule('^' + re.escape(sc[-1][2]) + '$', '*', 'SRQ8')]
  out['first_op_SRQ8'] = [P.rule('^' + re.escape(sc[0][2]) + '$', '*', 'SRQ8')]
  out['WO'] = [P.rule('.*', '*', 'WO')]
  # a rule without the optional 'op_config' key (exclusion rules are
  # commonly written that way)
  out['a8w8_but_last_op_float'] = out['a8w8'] + [dict(
      regex='^' + re.escape(sc[-1][2]) + '$', operation='*',
      algorithm_key='no_quantize')]
  return out


PAIRS = [('a8w8', 'last_op_SRQ8'), ('a8w8', 'a16w8'), ('a16w8', 'a8w8'),
         ('first_op_SRQ8', 'last_op_SRQ8'), ('a8w8', 'WO'),
         ('last_op_SRQ8', 'a8w8'), ('a8w8_but_last_op_float', 'WO')]


def make_harness(model_bytes, ra, rb):
  def h(e):
    be = symnp.set_backend(B.UF())
    be.reset()
    fakeinterp.STATE.update(sample=0, tag='', content=None)
    inp = flatbuffer_utils.read_model_from_bytearray(bytearray(model_bytes))
    base = P.symbolic_qsvs(e, inp, 'UF')

    def fresh_res():
      return {k: dict(v) for k, v in base.items()}

    mbytes = bytearray(model_bytes)
    keep_bytes = bytes(mbytes)
    ra_in, rb_in = copy.deepcopy(ra), copy.deepcopy(rb)
    ra_s, rb_s = json.dumps(ra_in, sort_keys=True), json.dumps(
        rb_in, sort_keys=True)
    other_bytes = P.variant_model(model_bytes)
    with patch.symbolic_numpy(), patch.rebind(
        'ai_edge_quantizer.utils.tfl_interpreter_utils', 'tfl',
        fakeinterp.Module):
      # reference: fresh process (process-wide state of the repo's modules
      # put back to its import-time content), fresh Quantizer, fresh copy of
      # the statistics
      patch.fresh_process_state()
      ref_b = capture_quantize(quantizer_lib.Quantizer(
          bytes(keep_bytes), copy.deepcopy(rb)), fresh_res())
      ref_a = capture_quantize(quantizer_lib.Quantizer(
          bytes(keep_bytes), copy.deepcopy(ra)), fresh_res())
      e.reach('history')
      # S1: one Quantizer, quantize(A), load B, quantize(B), shared result
      res = fresh_res()
      snap = snap_qsvs(res)
      q = quantizer_lib.Quantizer(mbytes, ra_in)
      out_a = capture_quantize(q, res)
      d = qsvs_changed(res, snap)
      e.check('C14.quantize.calibration_result_not_modified', not d,
              info=['S1 after quantize(A)'] + d[:3])
      models_equal(e, 'C14.quantize.equals_fresh_quantizer', out_a, ref_a,
                   'S1 first call')
      q.load_quantization_recipe(rb_in)
      out_b = capture_quantize(q, res)
      models_equal(e, 'C14.history.quantize_B_after_A_equals_B_alone', out_b,
                   ref_b, 'S1 same Quantizer, shared result')
      e.check('C14.quantize.model_bytes_not_modified',
              bytes(mbytes) == keep_bytes, info=['S1'])
      e.check('C14.recipe_argument_not_modified',
              json.dumps(ra_in, sort_keys=True) == ra_s and json.dumps(
                  rb_in, sort_keys=True) == rb_s, info=['S1'])
      # S2: two Quantizers sharing the result object
      res2 = fresh_res()
      q1 = quantizer_lib.Quantizer(bytes(keep_bytes), copy.deepcopy(ra))
      q2 = quantizer_lib.Quantizer(bytes(keep_bytes), copy.deepcopy(rb))
      capture_quantize(q1, res2)
      out2 = capture_quantize(q2, res2)
      models_equal(e, 'C14.history.quantize_B_after_A_equals_B_alone', out2,
                   ref_b, 'S2 two Quantizers, shared result')
      # S3: same call twice
      res3 = fresh_res()
      q3 = quantizer_lib.Quantizer(bytes(keep_bytes), copy.deepcopy(rb))
      o1 = capture_quantize(q3, res3)
      o2 = capture_quantize(q3, res3)
      models_equal(e, 'C14.history.repeated_quantize_is_idempotent', o2, o1,
                   'S3 quantize twice')
      models_equal(e, 'C14.quantize.equals_fresh_quantizer', o1, ref_b, 'S3')
      # S4: calibrate (fake interpreter) does not touch its arguments
      sigs = c09.signatures(inp)
      key, sd = sigs[0]
      data = list(c09.dataset(inp, sd, [0, 1]))
      data_snap = [(id(s), {k: id(v) for k, v in s.items()}) for s in data]
      prev = fresh_res()
      psnap = snap_qsvs(prev)
      q4 = quantizer_lib.Quantizer(bytes(keep_bytes), copy.deepcopy(ra))

      def ds():
        for k, s in enumerate(data):
          fakeinterp.STATE['sample'] = k
          yield s
      try:
        r4 = q4.calibrate(ds(), key, prev)
      except Inconclusive:
        raise
      except Exception as ex:  # pylint: disable=broad-except
        r4 = ex
      d = qsvs_changed(prev, psnap)
      e.check('C14.calibrate.previous_result_not_modified', not d,
              info=['S4'] + d[:3])
      e.check('C14.calibrate.dataset_not_modified',
              [(id(s), {k: id(v) for k, v in s.items()}) for s in data]
              == data_snap, info=['S4'])
      # S4b: a previous result as a user may hand it over after saving it
      # (float64 arrays, Python floats, nested lists): same contract
      cq = P.concrete_qsvs(inp, None)
      prev2 = {}
      for j, (k_, v_) in enumerate(sorted(cq.items())):
        if j % 3 == 0:
          prev2[k_] = {kk: np.asarray(vv, np.float64) * 1.0000001
                       for kk, vv in v_.items()}
        elif j % 3 == 1:
          prev2[k_] = {kk: [float(np.asarray(vv).reshape(-1)[0])]
                       for kk, vv in v_.items()}
        else:
          prev2[k_] = {kk: np.asarray(vv, np.float32) for kk, vv in v_.items()}
      before2 = copy.deepcopy(prev2)
      ids2 = {k_: {kk: id(vv) for kk, vv in v_.items()}
              for k_, v_ in prev2.items()}
      try:
        quantizer_lib.Quantizer(bytes(keep_bytes), copy.deepcopy(ra)).calibrate(
            ds(), key, prev2)
      except Inconclusive:
        raise
      except Exception:  # pylint: disable=broad-except
        pass
      same2 = set(prev2) == set(before2) and all(
          set(prev2[k_]) == set(before2[k_]) and all(
              id(prev2[k_][kk]) == ids2[k_][kk]
              and type(prev2[k_][kk]) is type(before2[k_][kk])
              and getattr(prev2[k_][kk], 'dtype', None) == getattr(
                  before2[k_][kk], 'dtype', None)
              and np.array_equal(np.asarray(prev2[k_][kk]),
                                 np.asarray(before2[k_][kk]))
              for kk in before2[k_]) for k_ in before2)
      e.check('C14.calibrate.previous_result_not_modified', same2,
              info=['S4b float64 / list / float32 previous result'])
      # S5: update_quantization_recipe history then quantize == fresh(recipe)
      q5 = quantizer_lib.Quantizer(bytes(keep_bytes), copy.deepcopy(ra))
      capture_quantize(q5, fresh_res())
      final = q5.get_quantization_recipe()
      o5 = capture_quantize(q5, fresh_res())
      models_equal(e, 'C14.history.repeated_quantize_is_idempotent', o5,
                   ref_a, 'S5 after get_quantization_recipe')
      # S6: "other Quantizer objects", other model: a second checkpoint of
      # the same architecture (equal tensor names, shapes, buffer indices,
      # other weights) quantized first in a fresh process, then this model
      # with fresh Quantizers
      patch.fresh_process_state()
      capture_quantize(quantizer_lib.Quantizer(other_bytes, copy.deepcopy(rb)),
                       fresh_res())
      capture_quantize(quantizer_lib.Quantizer(other_bytes, copy.deepcopy(ra)),
                       fresh_res())
      o6b = capture_quantize(quantizer_lib.Quantizer(
          bytes(keep_bytes), copy.deepcopy(rb)), fresh_res())
      models_equal(e, 'C14.history.independent_of_other_models_quantized_before',
                   o6b, ref_b, 'S6 B after another checkpoint')
      o6a = capture_quantize(quantizer_lib.Quantizer(
          bytes(keep_bytes), copy.deepcopy(ra)), fresh_res())
      models_equal(e, 'C14.history.independent_of_other_models_quantized_before',
                   o6a, ref_a, 'S6 A after another checkpoint')
      # S7: calibrate() of the other checkpoint first (constants' statistics
      # are collected at calibration time), then this model
      patch.fresh_process_state()
      om = flatbuffer_utils.read_model_from_bytearray(bytearray(other_bytes))
      try:
        quantizer_lib.Quantizer(other_bytes, copy.deepcopy(ra)).calibrate(
            ds(), key)
      except Inconclusive:
        raise
      except Exception:  # pylint: disable=broad-except
        pass
      o7 = capture_quantize(quantizer_lib.Quantizer(
          bytes(keep_bytes), copy.deepcopy(rb)), fresh_res())
      models_equal(e, 'C14.history.independent_of_other_models_quantized_before',
                   o7, ref_b, 'S7 B after calibrating another checkpoint')
  return h


def case_list(tier):
  fam = P.skeleton_family(tier)
  names = SKELS if tier == 'quick' else [
      k for k in fam if not k.startswith('single_') or k in (
          'single_RESHAPE', 'single_SOFTMAX', 'single_TANH', 'single_SPLIT',
          'single_CONCAT_SAME', 'single_FC')]
  return [(s, a, b) for s in names for a, b in PAIRS]


def job_hist(job):
  tier = job.args['tier']
  fam = P.skeleton_family(tier)
  st = Stats()
  cands, inconc, samples = [], [], []
  for skel, a, b in job.args['cases']:
    recs = recipes(fam[skel])
    en = Engine(solver_timeout_ms=30000, max_paths=400, wall_budget_s=200)
    h = make_harness(fam[skel], recs[a], recs[b])
    en.explore(h)
    st.merge(en.stats)
    inconc += [f'{skel}/{a}->{b}: {x}' for x in en.inconclusive]
    seen = set()
    for v in en.violations:
      key = (v.name, str(v.info)[:60])
      if 'other_models' in v.name:
        key = v.name  # replayed in fresh processes: one candidate per case
      if key in seen:
        continue
      seen.add(key)
      status, vals = 'skipped', None
      c = Candidate(v.name, {
          'skeleton': skel, 'A': a, 'B': b, 'info': v.info,
          'stats': {k: z3val_to_py(x) for k, x in v.model_values.items()}})
      c.job = job.name
      cands.append(c)
    if len(samples) < 2:
      samples.append(f'{skel}: histories over recipes {a} then {b} on a '
                     f'shared symbolic calibration result: '
                     f'{en.stats.paths} paths')
  return JobResult(job.name, st.as_dict(), cands, inconc, {}, samples=samples)


def jobs(tier, seed):
  cs = case_list(tier)
  js = []
  for i in range(0, len(cs), 3):
    js.append(Job(f'hist:{i // 3}', job_hist, {'tier': tier,
                                               'cases': cs[i:i + 3]}))
  bs = ['single_FC', 'fc_fc', 'const_shared_by_two_ops',
        'chain_fc_reshape_softmax']
  for i in range(0, len(bs), 2):
    js.append(Job(f'bytes:{i // 2}', job_bytes, {'tier': tier,
                                                 'skeletons': bs[i:i + 2]}))
  js.append(Job('hashseed', job_hashseed, {'tier': tier}))
  return js


_FRESH_CODE = r"""
import sys, pickle, copy
import numpy as np
steps = pickle.loads(sys.stdin.buffer.read())
from ai_edge_quantizer import quantizer
for mb, recipe, qsvs in steps:
  try:
    with np.errstate(all='ignore'):
      out = bytes(quantizer.Quantizer(mb, recipe).quantize(qsvs).quantized_model)
  except Exception as ex:
    out = f'{type(ex).__name__}: {ex}'
sys.stdout.buffer.write(b'@@RESULT@@' + pickle.dumps(out))
"""


def fresh_process_bytes(steps):
  """In a really fresh interpreter process: one fresh Quantizer per step
  (model, recipe, calibration result), quantize(); result of the LAST step."""
  import os as _os, pickle, subprocess, sys
  env = dict(_os.environ, PYTHONPATH='/repo', TF_CPP_MIN_LOG_LEVEL='3')
  env.pop('AI_EDGE_QUANTIZER_VERIF', None)
  r = subprocess.run([sys.executable, '-W', 'ignore', '-c', _FRESH_CODE],
                     input=pickle.dumps([(bytes(m), copy.deepcopy(rc),
                                          copy.deepcopy(q))
                                         for m, rc, q in steps]),
                     capture_output=True, env=env)
  if b'@@RESULT@@' not in r.stdout:
    raise Inconclusive('fresh process failed: ' + r.stderr.decode()[-200:])
  return pickle.loads(r.stdout.split(b'@@RESULT@@', 1)[1])


def _other_model_history(mb, ra, rb, qsvs):
  """Two really fresh processes: (1) quantize(model, B) alone; (2) another
  checkpoint of the architecture (equal tensor names, shapes, buffer indices,
  other weights) quantized first under A and B, then quantize(model, B), each
  with its own fresh Quantizer.  The bytes must be identical."""
  other = P.variant_model(mb)
  want = fresh_process_bytes([(mb, rb, qsvs)])
  got = fresh_process_bytes([(other, ra, qsvs), (other, rb, qsvs),
                             (mb, rb, qsvs)])
  if got != want:
    return ['quantize(model, B) after another checkpoint with equal tensor '
            'names was quantized in the same process differs from a fresh '
            'process']
  return []


def _bytes_histories(mb, ra, rb, qsvs):
  """Real serializer, concrete statistics: bytes of quantize(B) after
  quantize(A) on one Quantizer / after another Quantizer used the shared
  result, vs a fresh Quantizer(B)."""
  import os as _os

  def qz(q, res):
    try:
      with np.errstate(all='ignore'):
        return bytes(q.quantize(copy.deepcopy(res) if res is None else res)
                     .quantized_model)
    except Exception as ex:  # pylint: disable=broad-except
      return f'{type(ex).__name__}: {ex}'
  out = []
  for large in (False, True):
    env = dict(_os.environ)
    try:
      if large:
        _os.environ['AI_EDGE_QUANTIZER_VERIF'] = '1'
        _os.environ['AI_EDGE_QUANTIZER_VERIF_LARGE_MODEL_THRESHOLD'] = '-1'
      else:
        _os.environ.pop('AI_EDGE_QUANTIZER_VERIF', None)
      fresh = qz(quantizer_lib.Quantizer(mb, copy.deepcopy(rb)),
                 copy.deepcopy(qsvs))
      shared = copy.deepcopy(qsvs)
      q = quantizer_lib.Quantizer(mb, copy.deepcopy(ra))
      qz(q, shared)
      q.load_quantization_recipe(copy.deepcopy(rb))
      same_q = qz(q, shared)
      q2 = quantizer_lib.Quantizer(mb, copy.deepcopy(rb))
      two_q = qz(q2, shared)
      again = qz(q2, shared)
      tag = 'large-model path' if large else 'ordinary path'
      if same_q != fresh:
        out.append(f'{tag}: quantize(B) after quantize(A) on the same '
                   'Quantizer differs from a fresh Quantizer(B)')
      if two_q != fresh:
        out.append(f'{tag}: quantize(B) on a second Quantizer sharing the '
                   'calibration result differs from fresh')
      if again != fresh:
        out.append(f'{tag}: repeated quantize(B) differs')
    finally:
      _os.environ.clear()
      _os.environ.update(env)
  return out


def job_bytes(job):
  """Concrete end-to-end histories through the real FlatBuffers serializer,
  ordinary and large-model path (hook) - serializer-side state that the
  symbolic harness (serializer intercepted) cannot see."""
  tier = job.args['tier']
  fam = P.skeleton_family(tier)
  n, cands = 0, []
  for skel in job.args['skeletons']:
    mb = fam[skel]
    inp = flatbuffer_utils.read_model_from_bytearray(bytearray(mb))
    recs = recipes(mb)
    recs['WO4'] = [P.rule('.*', '*', 'WO4')]
    recs['DRQ'] = [P.rule('.*', '*', 'DRQ')]
    qsvs = P.concrete_qsvs(inp, None)
    for a, b in (('WO', 'WO4'), ('WO4', 'WO'), ('a8w8', 'WO4'), ('DRQ', 'a8w8'),
                 ('a16w8', 'DRQ')):
      n += 1
      pr = _bytes_histories(mb, recs[a], recs[b], qsvs)
      if (a, b) == ('DRQ', 'a8w8'):
        n += 1
        pr += _other_model_history(mb, recs[a], recs[b], qsvs)
      if pr:
        cands.append(Candidate('C14.bytes.history_independent', {
            'concrete_bytes': True, 'skeleton': skel, 'A': a, 'B': b,
            'problems': pr}))
  st = {'paths': n, 'decisions': n, 'obligations': n,
        'discharged': n - len(cands), 'solver_calls': 0, 'solver_time': 0.0,
        'reached': {'bytes': n}}
  for c in cands:
    c.job = job.name
  return JobResult(job.name, st, cands[:3], [], {}, samples=[
      f'{n} concrete histories x (ordinary, large-model) serializer paths: '
      'bytes equal to a fresh Quantizer'])


_HASH_CODE = r"""
import sys, pickle, hashlib
import numpy as np
steps = pickle.loads(sys.stdin.buffer.read())
from ai_edge_quantizer import quantizer
out = []
for mb, recipe, qsvs in steps:
  try:
    with np.errstate(all='ignore'):
      b = bytes(quantizer.Quantizer(mb, recipe).quantize(qsvs).quantized_model)
    out.append(hashlib.sha256(b).hexdigest())
  except Exception as ex:
    out.append(f'{type(ex).__name__}')
sys.stdout.buffer.write(b'@@RESULT@@' + pickle.dumps(out))
"""
HASH_SKELS = ['fc_fc', 'chain_fc_reshape_softmax', 'tensor_2_consumers',
              'two_subgraphs_independent', 'diamond']
HASH_SEEDS = ('0', '1', '4242')


def _hashseed_steps(tier):
  fam = P.skeleton_family(tier)
  steps, names = [], []
  for skel in HASH_SKELS:
    mb = fam[skel]
    inp = flatbuffer_utils.read_model_from_bytearray(bytearray(mb))
    recs = recipes(mb)
    recs['DRQ'] = [P.rule('.*', '*', 'DRQ')]
    qsvs = P.concrete_qsvs(inp, None)
    for rname, rec in recs.items():
      steps.append((bytes(mb), copy.deepcopy(rec), copy.deepcopy(qsvs)))
      names.append(f'{skel}/{rname}')
  return steps, names


def _hashseed_run(steps):
  import os as _os, pickle, subprocess, sys
  procs = []
  for seed in HASH_SEEDS:
    env = dict(_os.environ, PYTHONPATH='/repo', TF_CPP_MIN_LOG_LEVEL='3',
               PYTHONHASHSEED=seed)
    env.pop('AI_EDGE_QUANTIZER_VERIF', None)
    p = subprocess.Popen([sys.executable, '-W', 'ignore', '-c', _HASH_CODE],
                         stdin=subprocess.PIPE, stdout=subprocess.PIPE,
                         stderr=subprocess.PIPE, env=env)
    procs.append(p)
  payload = pickle.dumps(steps)
  import threading
  outs = [None] * len(procs)

  def feed(i, p):
    outs[i] = p.communicate(payload)
  ts = [threading.Thread(target=feed, args=(i, p)) for i, p in enumerate(procs)]
  for t in ts:
    t.start()
  for t in ts:
    t.join()
  res = []
  for (so, se) in outs:
    if b'@@RESULT@@' not in so:
      raise Inconclusive('hash-seed process failed: ' + se.decode()[-200:])
    res.append(pickle.loads(so.split(b'@@RESULT@@', 1)[1]))
  return res


def job_hashseed(job):
  """Really fresh interpreter processes under different PYTHONHASHSEED: the
  bytes quantize() returns for equal arguments are identical (a set or dict
  iteration order leaking into the output cannot be seen inside one
  process)."""
  steps, names = _hashseed_steps(job.args.get('tier', 'quick'))
  res = _hashseed_run(steps)
  bad = [names[i] for i in range(len(names))
         if len({r[i] for r in res}) != 1]
  n = len(names)
  st = {'paths': n * len(HASH_SEEDS), 'decisions': n, 'obligations': n,
        'discharged': n - len(bad), 'solver_calls': 0, 'solver_time': 0.0,
        'reached': {'hashseed': n}}
  cands = [Candidate('C14.process.hash_seed_independent',
                     {'concrete': True, 'cases': bad[:6]})] if bad else []
  for c in cands:
    c.job = job.name
  return JobResult(job.name, st, cands, [], {}, samples=[
      f'{n} (skeleton, recipe) cases x PYTHONHASHSEED {HASH_SEEDS} in fresh '
      'processes: sha256 of quantize() output identical'])


# ---------------------------------------------------------------------------
# replay through the public API with concrete statistics and the real
# serializer: compare bytes
# ---------------------------------------------------------------------------
def replay(c):
  d = c['data']
  if d.get('concrete'):
    steps, names = _hashseed_steps('thorough')
    keep = [i for i, nm in enumerate(names) if nm in d['cases']]
    res = _hashseed_run([steps[i] for i in keep])
    bad = [names[i] for k, i in enumerate(keep)
           if len({r[k] for r in res}) != 1]
    return bool(bad), 'output bytes depend on PYTHONHASHSEED', (
        f'quantize() output differs between fresh processes with '
        f'PYTHONHASHSEED {HASH_SEEDS} for {bad[:4]}')
  if d.get('concrete_bytes'):
    fam = P.skeleton_family('thorough')
    mb = fam[d['skeleton']]
    recs = recipes(mb)
    recs['WO4'] = [P.rule('.*', '*', 'WO4')]
    recs['DRQ'] = [P.rule('.*', '*', 'DRQ')]
    inp = flatbuffer_utils.read_model_from_bytearray(bytearray(mb))
    pr = _bytes_histories(mb, recs[d['A']], recs[d['B']],
                          P.concrete_qsvs(inp, None))
    pr += _other_model_history(mb, recs[d['A']], recs[d['B']],
                               P.concrete_qsvs(inp, None))
    return bool(pr), 'bytes depend on the call history', (
        f"skeleton={d['skeleton']} A={d['A']} B={d['B']}: {pr[:2]}")
  fam = P.skeleton_family('thorough')
  mb = fam[d['skeleton']]
  recs = recipes(mb)
  ra, rb = recs[d['A']], recs[d['B']]
  inp = flatbuffer_utils.read_model_from_bytearray(bytearray(mb))
  stats = d.get('stats')
  base = P.concrete_qsvs(inp, stats)
  bad = []

  def run(recipe, res):
    q = quantizer_lib.Quantizer(mb, copy.deepcopy(recipe))
    try:
      with np.errstate(all='ignore'):
        return bytes(q.quantize(res).quantized_model)
    except Exception as ex:  # pylint: disable=broad-except
      return f'{type(ex).__name__}: {ex}'
  # a previous calibration result that is not made of float32 arrays
  try:
    from props import c09 as _c09
    key_, sd_ = _c09.signatures(inp)[0]
    sg_ = inp.subgraphs[sd_.subgraphIndex]
    sample = {}
    for tm in sd_.inputs:
      t_ = sg_.tensors[tm.tensorIndex]
      nm_ = tm.name.decode() if isinstance(tm.name, bytes) else tm.name
      sample[nm_] = np.ones(tuple(t_.shape), np.float32) if t_.type == 0 \
          else np.zeros(tuple(t_.shape), fakeinterp.NP[t_.type])
    prev2 = {k_: {kk: np.asarray(vv, np.float64) * 1.0000001
                  for kk, vv in v_.items()} for k_, v_ in base.items()}
    before2 = copy.deepcopy(prev2)
    q_ = quantizer_lib.Quantizer(mb, copy.deepcopy(ra))
    if q_.need_calibration:
      q_.calibrate([sample], key_, prev2)
      for k_ in before2:
        for kk in before2[k_]:
          a_, b_ = np.asarray(prev2[k_][kk]), before2[k_][kk]
          if a_.dtype != b_.dtype or not np.array_equal(a_, b_):
            bad.append('calibrate() rewrote the previous calibration result '
                       f'it was given ({k_}/{kk}: {b_.dtype} -> {a_.dtype})')
            break
        if bad:
          break
  except Exception:  # pylint: disable=broad-except
    pass
  # caller-owned recipe lists
  for rr, tag in ((ra, 'A'), (rb, 'B')):
    mine = copy.deepcopy(rr)
    before_s = json.dumps(mine, sort_keys=True)
    try:
      qq = quantizer_lib.Quantizer(mb, mine)
      qq.load_quantization_recipe(mine)
    except Exception:  # pylint: disable=broad-except
      pass
    if json.dumps(mine, sort_keys=True) != before_s:
      bad.append(f'recipe {tag} passed to Quantizer()/load_quantization_'
                 'recipe() was modified in place')
  ref_b = run(rb, copy.deepcopy(base))
  res = copy.deepcopy(base)
  before = copy.deepcopy(res)
  run(ra, res)
  for k in before:
    for kk in before[k]:
      if not np.array_equal(np.asarray(before[k][kk]), np.asarray(res[k][kk])):
        bad.append(f'calibration result entry {k}/{kk} rewritten by quantize()')
  after_a = run(rb, res)
  if after_a != ref_b:
    bad.append('quantize(B) after quantize(A) on the shared calibration '
               'result differs from quantize(B) alone')
  if 'independent_of_other_models' in c.get('obligation', ''):
    bad += _other_model_history(mb, ra, rb, base)
    if not bad:
      bad += _other_model_history(mb, rb, ra, base)
  wc = ('quantize() rewrites the caller\'s calibration result in place '
        '(same-scale / fixed-range statistics)'
        if any('rewritten' in x for x in bad) else 'history')
  return bool(bad), wc, (f"skeleton={d['skeleton']} A={d['A']} B={d['B']}: "
                         f'{bad[:3]}')
