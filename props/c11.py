"""C11 - recipe resolution follows last-applicable-rule-wins.

One inductive step from an arbitrary valid RecipeManager state: the real
add_quantization_config / load_quantization_recipe / get_quantization_configs
run on symbolic regex / operation / algorithm / config tokens; `re.search` and
the support check are uninterpreted predicates.  Compared with a reference
written from the property text.
"""
from __future__ import annotations

import collections
import contextlib
import itertools
import types
import z3

from props.common import Candidate, Job, result_from_engines, JobResult
from symx import patch
from symx.core import (Engine, SymBool, SymTok, mkbool, z3val_to_py,
                       Inconclusive)

from ai_edge_quantizer import quantizer as quantizer_lib
from ai_edge_quantizer import algorithm_manager
from ai_edge_quantizer import algorithm_manager_api
from ai_edge_quantizer import qtyping
from ai_edge_quantizer import recipe_manager

PROP = 'C11'
USES_SHIM = False
LEVEL = 'model_checking'
FUNCS = [quantizer_lib.Quantizer.load_quantization_recipe,
         recipe_manager.RecipeManager.add_quantization_config,
         recipe_manager.RecipeManager.get_quantization_configs,
         recipe_manager.RecipeManager.load_quantization_recipe,
         recipe_manager.RecipeManager.get_quantization_recipe,
         algorithm_manager_api.AlgorithmManagerApi.check_op_quantization_config]
ASSUMPTIONS = [
    're.search(regex, scope) replaced by an uninterpreted predicate '
    'match(regex) for one arbitrary fixed scope (regexes are opaque: they '
    'interact only through dict-key equality and this predicate)',
    'algorithm_manager.check_op_quantization_config replaced by an '
    'uninterpreted predicate supported(algorithm, op, config) that raises '
    'ValueError when false (the real check is exercised by the concrete '
    'harness and by C13)',
    'pre-state: arbitrary RecipeManager state satisfying the representation '
    'invariant (distinct regex keys; rule.regex == key; distinct operations '
    'within a scope; "*" only at position 0; specific-op rules supported '
    'unless no_quantize); the invariant is itself checked to hold initially '
    'and to be preserved by every step',
    'operation tokens range over "*" and 3 specific operators, configs over '
    '3 opaque ids, algorithms over the 3 AlgorithmName members, regexes over '
    'the existing keys plus one fresh key (symmetry reduction)',
]
BOUNDS = {
    'quick': {'scopes_R': [0, 1, 2], 'rules_per_scope_K': [1, 2],
              'query before the update': 'states with <= 2 rules (thorough: '
                                         '<= 3 rules)',
              'load_list_length': [0, 1, 2, 3],
              'histories': 'any length over states within the bound (one '
                           'inductive step from an arbitrary valid state)'},
    'thorough': {'scopes_R': [0, 1, 2, 3], 'rules_per_scope_K': [1, 2, 3],
                 'max_total_rules': 5,
                 'load_list_length': [0, 1, 2, 3, 4],
                 'histories': 'any length over states within the bound'},
}

_Op = qtyping.TFLOperationName
_Alg = algorithm_manager.AlgorithmName
OPS = [_Op.ALL_SUPPORTED, _Op.FULLY_CONNECTED, _Op.CONV_2D, _Op.ADD]
ALGS = [_Alg.NO_QUANTIZE, _Alg.MIN_MAX_UNIFORM_QUANT, _Alg.FLOAT_CASTING]
CFGS = ['cfg0', 'cfg1', 'cfg2']

MATCH = z3.Function('match', z3.IntSort(), z3.BoolSort())
SUPPORTED = z3.Function('supported', z3.IntSort(), z3.IntSort(), z3.IntSort(),
                        z3.BoolSort())


def tok(domain, i):
  return SymTok(z3.IntVal(i), domain)


class _ReStub:
  """Stands in for module `re` inside recipe_manager."""

  @staticmethod
  def search(regex, scope):
    if not isinstance(regex, SymTok):
      raise Inconclusive('re.search on a non-token regex')
    return SymBool(MATCH(regex.z))


def _supported(alg, op, cfg):
  return SymBool(SUPPORTED(alg.z, _opz(op), _cfgz(cfg)))


def _opz(op):
  return op.z if isinstance(op, SymTok) else z3.IntVal(OPS.index(op))


_DEFAULT_CFG = qtyping.OpQuantizationConfig()


def _cfgz(cfg):
  if isinstance(cfg, SymTok):
    return cfg.z
  # the real default OpQuantizationConfig(): one more opaque id
  return z3.IntVal(len(CFGS))


def _check_stub(alg, op, cfg):
  if not isinstance(alg, SymTok):
    raise Inconclusive('support check called with a non-token algorithm')
  if not _supported(alg, op, cfg):
    raise ValueError('unsupported (stub)')


@contextlib.contextmanager
def stubs():
  with patch.rebind('ai_edge_quantizer.recipe_manager', 're', _ReStub), \
      patch.rebind('ai_edge_quantizer.algorithm_manager',
                   'check_op_quantization_config', _check_stub):
    yield


# ---------------------------------------------------------------------------
# arbitrary valid pre-state
# ---------------------------------------------------------------------------
def make_state(e, shape, regex_domain):
  """shape: tuple of rule counts per scope. Returns (manager, model)."""
  rm = recipe_manager.RecipeManager()
  model = []  # list of (regex_tok, [ (op, alg, cfg) ])
  for i, n in enumerate(shape):
    rt = tok(regex_domain, i)
    rules = []
    objs = []
    for j in range(n):
      op = SymTok.fresh(f'op_{i}_{j}', OPS)
      alg = SymTok.fresh(f'alg_{i}_{j}', ALGS)
      cfg = SymTok.fresh(f'cfg_{i}_{j}', CFGS)
      # invariant
      if j > 0:
        e.assume(op.z != 0)  # '*' only first
      for (op2, _, _) in rules:
        e.assume(op.z != op2.z)
      # a specific-op rule was validated when it was added
      e.assume(z3.Implies(z3.And(op.z != 0, alg.z != 0),
                          SUPPORTED(alg.z, op.z, cfg.z)))
      rules.append((op, alg, cfg))
      objs.append(recipe_manager.OpQuantizationRecipe(rt, op, alg, cfg))
    rm._scope_configs[rt] = objs
    model.append((rt, rules))
  return rm, model


def snapshot(rm):
  out = []
  for k, rules in rm._scope_configs.items():
    out.append((k, [(r.regex, r.operation, r.algorithm_key, r.op_config)
                    for r in rules]))
  return out


def _teq(a, b):
  """Token/value equality as a z3 formula (no forking)."""
  if isinstance(a, SymTok) and isinstance(b, SymTok):
    if a.domain is b.domain or a.domain == b.domain:
      return a.z == b.z
  if isinstance(a, SymTok):
    i = a._idx(b)
    return z3.BoolVal(False) if i is None else a.z == i
  if isinstance(b, SymTok):
    return _teq(b, a)
  return z3.BoolVal(a == b)


def state_eq(snap, model):
  if len(snap) != len(model):
    return z3.BoolVal(False)
  cs = []
  for (k, rules), (rt, mrules) in zip(snap, model):
    if len(rules) != len(mrules):
      return z3.BoolVal(False)
    cs.append(_teq(k, rt))
    for (rg, op, alg, cfg), (mop, malg, mcfg) in zip(rules, mrules):
      cs += [_teq(rg, rt), _teq(op, mop), _teq(alg, malg), _cfg_eq(cfg, mcfg)]
  return z3.And(*cs) if cs else z3.BoolVal(True)


def _cfg_eq(a, b):
  da = not isinstance(a, SymTok)
  db = not isinstance(b, SymTok)
  if da and db:
    return z3.BoolVal(a == b)
  if da or db:
    return z3.BoolVal(False)
  return a.z == b.z


def invariant(snap):
  cs = []
  for i, (k, rules) in enumerate(snap):
    for (k2, _) in snap[:i]:
      cs.append(z3.Not(_teq(k, k2)))
    cs.append(z3.BoolVal(len(rules) >= 1))
    for j, (rg, op, alg, cfg) in enumerate(rules):
      cs.append(_teq(rg, k))
      if j > 0:
        cs.append(z3.Not(_teq(op, _Op.ALL_SUPPORTED)))
      for (_, op2, _, _) in rules[:j]:
        cs.append(z3.Not(_teq(op, op2)))
      if isinstance(op, SymTok) and isinstance(alg, SymTok):
        cs.append(z3.Implies(
            z3.And(op.z != 0, alg.z != 0),
            SUPPORTED(alg.z, op.z, _cfgz(cfg))))
  return z3.And(*cs) if cs else z3.BoolVal(True)


# ---------------------------------------------------------------------------
# reference model, from the property text (runs under the engine: its
# decisions are already implied by the path condition of the implementation)
# ---------------------------------------------------------------------------
def ref_add(model, regex, op, cfg, alg):
  """Returns (new_model, raised)."""
  model = [(rt, list(rules)) for rt, rules in model]
  if cfg is None:
    cfg = _DEFAULT_CFG
  rule = (op, alg, cfg)
  is_all = bool(mkbool(_teq(op, _Op.ALL_SUPPORTED)))
  if not is_all:
    if bool(mkbool(z3.Not(_teq(alg, _Alg.NO_QUANTIZE)))):
      if not bool(_supported(alg, op, cfg)):
        return model, True
  for i, (rt, rules) in enumerate(model):
    if bool(mkbool(_teq(rt, regex))):
      if is_all:
        model[i] = (rt, [rule])  # reset, position of the scope kept
        return model, False
      for j, (op2, _, _) in enumerate(rules):
        if bool(mkbool(_teq(op2, op))):
          rules[j] = rule  # in-place replacement
          return model, False
      rules.append(rule)
      return model, False
  model.append((regex, [rule]))
  return model, False


def ref_resolve(model, target, ):
  res = (_Alg.NO_QUANTIZE, _DEFAULT_CFG)
  for rt, rules in model:
    if not bool(SymBool(MATCH(rt.z))):
      continue
    for (op, alg, cfg) in rules:
      applies = z3.Or(_teq(op, _Op.ALL_SUPPORTED), _teq(op, target))
      if not bool(mkbool(applies)):
        continue
      if bool(mkbool(z3.Not(_teq(alg, _Alg.NO_QUANTIZE)))):
        if not bool(_supported(alg, target, cfg)):
          continue
      res = (alg, cfg)
  return res


def res_eq(got, want):
  return z3.And(_teq(got[0], want[0]), _cfg_eq(got[1], want[1]))


# ---------------------------------------------------------------------------
# harnesses
# ---------------------------------------------------------------------------
def h_step(shape, fix=None, prequery=True):
  R = len(shape)
  regex_domain = [f'r{i}' for i in range(R + 1)]

  def h(e):
    with stubs():
      rm, model = make_state(e, shape, regex_domain)
      e.check('C11.invariant.pre_state_satisfies_it', invariant(snapshot(rm)))
      regex = SymTok.fresh('new_regex', regex_domain)
      op = SymTok.fresh('new_op', OPS)
      alg = SymTok.fresh('new_alg', ALGS)
      cfg = SymTok.fresh('new_cfg', CFGS)

      # a query BEFORE the update: resolution is a pure function of the rule
      # list, so it must neither disturb the state nor influence any later
      # resolution (e.g. through a cache)
      if prequery:
        target0 = SymTok.fresh('target_op_before', OPS)
        e.assume(target0.z != 0)
        got0 = rm.get_quantization_configs(target0, 'scope')
        e.check('C11.resolve.last_applicable_rule_wins',
                res_eq(got0, ref_resolve(model, target0)))
      raised = False
      try:
        _via_quantizer(rm).update_quantization_recipe(regex, op, cfg, alg)
      except ValueError:
        raised = True
      e.reach('add')
      ref_model, ref_raised = ref_add(model, regex, op, cfg, alg)
      e.check('C11.add.raises_iff_unsupported_specific_op',
              raised == ref_raised)
      snap = snapshot(rm)
      e.check('C11.add.state_equals_reference', state_eq(snap, ref_model))
      e.check('C11.invariant.preserved_by_add', invariant(snap))
      # resolve
      target = SymTok.fresh('target_op', OPS)
      e.assume(target.z != 0)
      got = rm.get_quantization_configs(target, 'scope')
      e.reach('resolve')
      want = ref_resolve(ref_model, target)
      e.check('C11.resolve.last_applicable_rule_wins', res_eq(got, want))
      snap2 = snapshot(rm)
      e.check('C11.resolve.pure_state_untouched', state_eq(snap2, ref_model))
      e.check('C11.resolve.pure_same_objects',
              all(a is b for (k1, r1), (k2, r2) in zip(snap, snap2)
                  for x, y in zip(r1, r2) for a, b in zip(x, y)))
      got2 = rm.get_quantization_configs(target, 'scope')
      e.check('C11.resolve.repeatable', res_eq(got2, got))
  return h


class _CfgStub:
  """Stands in for OpQuantizationConfig inside recipe_manager (load path)."""

  def __new__(cls):
    return _DEFAULT_CFG

  @staticmethod
  def from_dict(d):
    return d


def _via_quantizer(rm):
  """The public facade over a prepared RecipeManager state."""
  q = quantizer_lib.Quantizer(bytearray(b''), None)
  q._recipe_manager = rm
  return q


def h_load(n):
  regex_domain = [f'r{i}' for i in range(max(n, 1))]

  def h(e):
    with stubs(), patch.rebind('ai_edge_quantizer.recipe_manager',
                               '_OpQuantizationConfig', _CfgStub):
      # through the public facade: Quantizer.load_quantization_recipe hands
      # the rule list to its RecipeManager
      q = quantizer_lib.Quantizer(bytearray(b''), None)
      rm = q._recipe_manager
      # pre-existing content must be discarded by load
      rm._scope_configs[tok(regex_domain, 0)] = [
          recipe_manager.OpQuantizationRecipe(
              tok(regex_domain, 0), tok(OPS, 1), tok(ALGS, 0), tok(CFGS, 0))]
      recipe = []
      for i in range(n):
        recipe.append({
            'regex': SymTok.fresh(f'regex_{i}', regex_domain),
            'operation': SymTok.fresh(f'op_{i}', OPS),
            'algorithm_key': SymTok.fresh(f'alg_{i}', ALGS),
            'op_config': SymTok.fresh(f'cfg_{i}', CFGS),
        })
      raised = False
      try:
        q.load_quantization_recipe(recipe)
      except ValueError:
        raised = True
      rm = q._recipe_manager
      e.reach('load')
      model, ref_raised = [], False
      for c in recipe:
        # every rule is loaded with the config it was saved with (also
        # no_quantize rules, see C12: an exported recipe reloads to itself)
        model, r = ref_add(model, c['regex'], c['operation'],
                           c['op_config'], c['algorithm_key'])
        if r:
          ref_raised = True
          break
      e.check('C11.load.raises_iff_reference_raises', raised == ref_raised)
      if not raised and not ref_raised:
        snap = snapshot(rm)
        e.check('C11.load.equals_fold_of_adds_from_empty',
                state_eq(snap, model))
        e.check('C11.invariant.established_by_load', invariant(snap))
        target = SymTok.fresh('target_op', OPS)
        e.assume(target.z != 0)
        got = rm.get_quantization_configs(target, 'scope')
        e.check('C11.resolve.last_applicable_rule_wins',
                res_eq(got, ref_resolve(model, target)))
  return h


def _to_candidate(tag, v):
  data = {k: z3val_to_py(x) for k, x in v.model_values.items()}
  data['tag'] = tag
  # the interpretation of the uninterpreted predicates is part of the witness
  data['info'] = v.info
  return Candidate(v.name, data)


class _ModelEngine(Engine):
  """Also records match/supported interpretation for replay."""

  def model_values(self, m):
    vals = super().model_values(m)
    R = 4
    for r in range(R + 1):
      vals[f'match_{r}'] = m.eval(MATCH(z3.IntVal(r)), model_completion=True)
    for a in range(len(ALGS)):
      for o in range(len(OPS)):
        for c in range(len(CFGS) + 1):
          vals[f'sup_{a}_{o}_{c}'] = m.eval(
              SUPPORTED(z3.IntVal(a), z3.IntVal(o), z3.IntVal(c)),
              model_completion=True)
    return vals


def job_step(job):
  shape = tuple(job.args['shape'])
  en = _ModelEngine(solver_timeout_ms=20000, max_paths=400000,
                    shard=job.args.get('shard'))
  en.explore(h_step(shape, prequery=job.args.get('prequery', True)))
  tag = 'step/' + ','.join(map(str, shape))
  r = result_from_engines(job.name, [(tag, en)], _to_candidate)
  r.samples = [f'arbitrary valid state with rule counts per scope {shape}; '
               f'one add + resolve; {en.stats.paths} paths']
  return r


def job_load(job):
  n = job.args['n']
  en = _ModelEngine(solver_timeout_ms=20000, max_paths=400000)
  # the first violating path ends the job (its verdict is then fixed)
  en.explore(h_load(n), stop_on_violation=True)
  if en.violations:
    en.inconclusive = []
  r = result_from_engines(job.name, [(f'load/{n}', en)], _to_candidate)
  r.samples = [f'load_quantization_recipe of {n} symbolic rules; '
               f'{en.stats.paths} paths']
  return r


def job_load_real(job):
  """Exhaustive over 2-rule recipes drawn from real configs (incl.
  skip_checks=True ones that only pass because of it): loading the list
  through Quantizer.load_quantization_recipe equals entering the rules one by
  one with update_quantization_recipe - same exported recipe, same
  resolution for every operator of the alphabet and two scopes."""
  import copy, json
  T = qtyping.TensorQuantizationConfig
  cfgs = [
      qtyping.OpQuantizationConfig(
          weight_tensor_config=T(num_bits=8, symmetric=True),
          compute_precision=qtyping.ComputePrecision.INTEGER),
      qtyping.OpQuantizationConfig(
          weight_tensor_config=T(num_bits=4, symmetric=True),
          compute_precision=qtyping.ComputePrecision.INTEGER, skip_checks=True),
      qtyping.OpQuantizationConfig(
          weight_tensor_config=T(num_bits=16, dtype=qtyping.TensorDataType.FLOAT),
          compute_precision=qtyping.ComputePrecision.FLOAT,
          explicit_dequantize=True, skip_checks=True),
      qtyping.OpQuantizationConfig(
          activation_tensor_config=T(num_bits=8, symmetric=False),
          weight_tensor_config=T(num_bits=8, symmetric=True),
          compute_precision=qtyping.ComputePrecision.INTEGER),
  ]
  algs = [_Alg.MIN_MAX_UNIFORM_QUANT, _Alg.FLOAT_CASTING, _Alg.NO_QUANTIZE]
  ops = [_Op.ALL_SUPPORTED, _Op.FULLY_CONNECTED, _Op.CONV_2D, _Op.ADD]
  rules = [(rx, op, alg, c) for rx in ('.*', 'fc') for op in ops
           for alg in algs for c in range(len(cfgs))]
  bad, n = [], 0
  for r1 in rules:
    for r2 in rules[::3]:
      n += 1
      seq = [r1, r2]
      q1 = quantizer_lib.Quantizer(bytearray(b''), None)
      entered = []
      for rx, op, alg, c in seq:
        try:
          q1.update_quantization_recipe(rx, op, copy.deepcopy(cfgs[c]), alg)
          entered.append(dict(regex=rx, operation=op.value,
                              algorithm_key=alg.value,
                              op_config=cfgs[c].to_dict()))
        except ValueError:
          pass
      if not entered:
        continue
      q2 = quantizer_lib.Quantizer(bytearray(b''), None)
      try:
        q2.load_quantization_recipe(json.loads(json.dumps(entered)))
      except Exception as ex:  # pylint: disable=broad-except
        bad.append((seq, f'load raises {type(ex).__name__}: {ex}'))
        continue
      if json.dumps(q1.get_quantization_recipe()) != json.dumps(
          q2.get_quantization_recipe()):
        bad.append((seq, 'exported recipes differ'))
        continue
      for op in ops[1:]:
        for scope in ('fc;', 'other;'):
          a = q1._recipe_manager.get_quantization_configs(op, scope)
          b = q2._recipe_manager.get_quantization_configs(op, scope)
          if str(getattr(a[0], 'value', a[0])) != str(
              getattr(b[0], 'value', b[0])) or a[1] != b[1]:
            bad.append((seq, f'resolve({op.value},{scope}): {a} vs {b}'))
  st = {'paths': n, 'decisions': n, 'obligations': n,
        'discharged': n - min(n, len(bad)), 'solver_calls': 0,
        'solver_time': 0.0, 'reached': {'loadreal': n}}
  cands = [Candidate('C11.load.equals_updates_with_real_configs', {
      'tag': 'loadreal', 'info': [str(bad[0][0])[:300], bad[0][1][:200]]})] \
      if bad else []
  for c in cands:
    c.job = job.name
  return JobResult(job.name, st, cands, [], {}, samples=[
      f'{n} two-rule recipes over 4 real configs (2 with skip_checks): load '
      '== sequence of updates'])


REACH = {'step': ['add', 'resolve'], 'load': ['load'], 'loadreal': ['loadreal']}


def jobs(tier, seed):
  b = BOUNDS[tier]
  js = []
  for R in b['scopes_R']:
    for shape in itertools.product(b['rules_per_scope_K'], repeat=R):
      if sum(shape) > b.get('max_total_rules', 99):
        continue
      if sum(shape) >= 3:
        D = {3: 4, 4: 6}.get(sum(shape), 8)
        for sh in range(2 ** D):
          js.append(Job('step:' + ','.join(map(str, shape)) + f':shard{sh}',
                        job_step, {'shape': list(shape), 'shard': (sh, D),
                                   'prequery': tier == 'thorough'
                                   and sum(shape) <= 3}))
      else:
        js.append(Job('step:' + ','.join(map(str, shape)), job_step,
                      {'shape': list(shape)}))
  for n in b['load_list_length']:
    js.append(Job(f'load:{n}', job_load, {'n': n}))
  js += concrete_jobs(tier)
  js.append(Job('loadreal', job_load_real, {}))
  return js


# ---------------------------------------------------------------------------
# concrete replay: rebuild the history through the public Quantizer-level API
# objects (RecipeManager with the real `re`, a synthetic support check that
# realises the model's interpretation of supported())
# ---------------------------------------------------------------------------
def replay(c):
  d = c['data']
  if d.get('tag') == 'loadreal':
    r = job_load_real(Job('loadreal', job_load_real, {}))
    return bool(r.candidates), 'load differs from the sequence of updates', (
        str(r.candidates[0].data['info']) if r.candidates else '')
  tag = d['tag']
  kind, arg = tag.split('/')
  sup = {}
  for k, v in d.items():
    if k.startswith('sup_'):
      _, a, o, cf = k.split('_')
      sup[(int(a), int(o), int(cf))] = bool(v)
  nreg = 6
  match = {r: bool(d.get(f'match_{r}', False)) for r in range(nreg)}
  # concrete regexes: matching ones contain the scope literal, the others not;
  # all distinct.
  scope = 'scope_name;'
  regexes = [(f'scope_name(x{r})?' if match[r] else f'nomatch{r}')
             for r in range(nreg)]
  cfgs = [qtyping.OpQuantizationConfig(
      weight_tensor_config=qtyping.TensorQuantizationConfig(num_bits=4 + i))
          for i in range(len(CFGS))] + [_DEFAULT_CFG]

  def cfg_index(cfg):
    for i, x in enumerate(cfgs):
      if x == cfg:
        return i
    return len(CFGS)

  def check(alg, op, cfg):
    if not sup.get((ALGS.index(alg), OPS.index(op), cfg_index(cfg)), False):
      raise ValueError('unsupported (replay)')

  def ref_add_c(model, regex, op, cfg, alg):
    model = [(r, list(rs)) for r, rs in model]
    if op != _Op.ALL_SUPPORTED and alg != _Alg.NO_QUANTIZE:
      try:
        check(alg, op, cfg)
      except ValueError:
        return model, True
    rule = (op, alg, cfg)
    for i, (r, rs) in enumerate(model):
      if r == regex:
        if op == _Op.ALL_SUPPORTED:
          model[i] = (r, [rule])
          return model, False
        for j, (o2, _, _) in enumerate(rs):
          if o2 == op:
            rs[j] = rule
            return model, False
        rs.append(rule)
        return model, False
    model.append((regex, [rule]))
    return model, False

  def ref_res_c(model, target):
    import re
    res = (_Alg.NO_QUANTIZE, _DEFAULT_CFG)
    for r, rs in model:
      if not re.search(r, scope):
        continue
      for (op, alg, cfg) in rs:
        if op not in (_Op.ALL_SUPPORTED, target):
          continue
        if alg != _Alg.NO_QUANTIZE:
          try:
            check(alg, target, cfg)
          except ValueError:
            continue
        res = (alg, cfg)
    return res

  with patch.rebind('ai_edge_quantizer.algorithm_manager',
                    'check_op_quantization_config', check):
    rm = recipe_manager.RecipeManager()
    model = []
    what = []
    bad = False
    if kind == 'step':
      shape = [int(x) for x in arg.split(',')] if arg else []
      for i, n in enumerate(shape):
        objs, rules = [], []
        for j in range(n):
          op = OPS[d[f'op_{i}_{j}']]
          alg = ALGS[d[f'alg_{i}_{j}']]
          cfg = cfgs[d[f'cfg_{i}_{j}']]
          objs.append(recipe_manager.OpQuantizationRecipe(
              regexes[i], op, alg, cfg))
          rules.append((op, alg, cfg))
        rm._scope_configs[regexes[i]] = objs
        model.append((regexes[i], rules))
      regex = regexes[d['new_regex']]
      op, alg, cfg = (OPS[d['new_op']], ALGS[d['new_alg']],
                      cfgs[d['new_cfg']])
      if 'target_op_before' in d:
        t0 = OPS[d['target_op_before']]
        g0 = rm.get_quantization_configs(t0, scope)
        w0 = ref_res_c(model, t0)
        if (g0[0], g0[1]) != w0:
          bad = True
          what.append(f'pre-update resolve({t0.value}) = {g0}, reference {w0}')
      raised = False
      try:
        _via_quantizer(rm).update_quantization_recipe(regex, op, cfg, alg)
      except ValueError:
        raised = True
      model, ref_raised = ref_add_c(model, regex, op, cfg, alg)
      what.append(f'pre-state {shape}, add({regex!r},{op.value},{alg.value})')
      if raised != ref_raised:
        bad = True
        what.append(f'raised={raised} reference={ref_raised}')
    else:
      n = int(arg)
      recipe = []
      for i in range(n):
        recipe.append({'regex': regexes[d[f'regex_{i}']],
                       'operation': OPS[d[f'op_{i}']],
                       'algorithm_key': ALGS[d[f'alg_{i}']],
                       'op_config': cfgs[d[f'cfg_{i}']].to_dict()})
      raised = False
      q = quantizer_lib.Quantizer(bytearray(b''), None)
      try:
        q.load_quantization_recipe(recipe)
      except ValueError:
        raised = True
      rm = q._recipe_manager
      ref_raised = False
      for cdict in recipe:
        model, r = ref_add_c(
            model, cdict['regex'], cdict['operation'],
            qtyping.OpQuantizationConfig.from_dict(cdict['op_config']),
            cdict['algorithm_key'])
        if r:
          ref_raised = True
          break
      what.append(f'load of {n} rules')
      if raised != ref_raised:
        bad = True
        what.append(f'raised={raised} reference={ref_raised}')
      if raised or ref_raised:
        return bad, 'load', '; '.join(what)
    got_state = [(k, [(r.operation, r.algorithm_key, r.op_config) for r in v])
                 for k, v in rm._scope_configs.items()]
    if got_state != model:
      bad = True
      what.append(f'state {got_state} != reference {model}')
    if 'target_op' in d:
      target = OPS[d['target_op']]
      got = rm.get_quantization_configs(target, scope)
      want = ref_res_c(model, target)
      if (got[0], got[1]) != want:
        bad = True
        what.append(f'resolve({target.value}) = {got}, reference {want}')
  return bad, 'recipe-resolution', '; '.join(what)


# ---------------------------------------------------------------------------
# concrete harness with the real support check and policy (no stubs): every
# history of <= 2 updates over a small alphabet of real configs vs reference.
# Enumerated, not symbolic: it validates the stub contract
# ("check_op_quantization_config is a deterministic function of its three
# arguments that either returns or raises ValueError").
# ---------------------------------------------------------------------------
def concrete_jobs(tier):
  return [Job('real_check_contract', job_real_contract, {'tier': tier})]


def job_real_contract(job):
  from props.common import JobResult
  T = qtyping.TensorQuantizationConfig
  cfgs = [
      qtyping.OpQuantizationConfig(),
      qtyping.OpQuantizationConfig(
          weight_tensor_config=T(num_bits=8),
          compute_precision=qtyping.ComputePrecision.INTEGER),
      qtyping.OpQuantizationConfig(
          weight_tensor_config=T(num_bits=3),
          compute_precision=qtyping.ComputePrecision.INTEGER),
      qtyping.OpQuantizationConfig(
          weight_tensor_config=T(num_bits=16,
                                 dtype=qtyping.TensorDataType.FLOAT)),
      qtyping.OpQuantizationConfig(weight_tensor_config=T(num_bits=3),
                                   skip_checks=True),
  ]
  n = 0
  bad = []
  for alg in ALGS:
    for op in list(_Op):
      for cfg in cfgs:
        outcomes = []
        for _ in range(2):
          try:
            r = algorithm_manager.check_op_quantization_config(alg, op, cfg)
            outcomes.append(('ok', r))
          except ValueError:
            outcomes.append(('ValueError', None))
          except Exception as ex:  # pylint: disable=broad-except
            outcomes.append((type(ex).__name__, None))
        n += 1
        if outcomes[0] != outcomes[1] or outcomes[0][0] not in (
            'ok', 'ValueError') or outcomes[0][1] is not None:
          if alg == _Alg.NO_QUANTIZE:
            continue  # never called for no_quantize by RecipeManager
          bad.append(f'{alg} {op} {cfg}: {outcomes}')
  st = {'paths': n, 'decisions': n, 'obligations': n,
        'discharged': n - len(bad), 'solver_calls': 0, 'solver_time': 0.0}
  return JobResult(job.name, st, [], [f'stub contract broken: {b}' for b in bad[:3]],
                   {}, samples=[f'{n} (algorithm, op, config) triples: real '
                                'check returns None or raises ValueError, '
                                'deterministically'])
