"""C02 - see props/pipeline.py and props/pipeprops.py (DESIGN 3/C02)."""
from props import pipeline as P
from props import pipeprops as PP

PROP = 'C02'
LEVEL = 'model_checking'
FUNCS = P.FUNCS
ASSUMPTIONS = P.ASSUMPTIONS_COMMON
BOUNDS = {
    'quick': {'skeletons': 'curated list (43 single-op kinds + 35 topologies, DESIGN 3.0, 7.1, 9) + the first 40 seeded random DAGs of 2-5 operators',
              'recipes': '6 shipped' if PROP == 'C08' else
              '6 shipped + fp16 + a16 + per-op selective SRQ8/WO/DRQ + all-but-one',
              'statistics': 'symbolic float32 min<=max per runtime tensor',
              'paths_per_case_cap': 3000},
    'thorough': {'skeletons': 'same family + 1200 random DAGs of 2-5 operators '
                 '(seeded by VERIF_SEED) over a 12-kind table with random '
                 'graph-output sets', 'recipes': 'quick + a16/mixed '
                 'selective variants', 'statistics': 'symbolic',
                 'paths_per_case_cap': 3000},
}
REACH = {'skel': ['pipeline']}


def jobs(tier, seed):
  return PP.make_jobs(PROP, tier)


def replay(c):
  return PP.replay(PROP, c)
