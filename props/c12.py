"""C12 - a saved recipe reloads to the same rules.

Recipes reachable by <= 2 update calls from an empty RecipeManager, with the
config's scalar fields symbolic (num_bits, block_size: unbounded ints;
symmetric, explicit_dequantize, skip_checks: bools; enum fields and presence
of the activation/weight config forked), through the real
add_quantization_config (with the REAL support check and policy) ->
get_quantization_recipe -> JSON round trip -> load_quantization_recipe into a
fresh manager -> get_quantization_recipe / get_quantization_configs.
"""
from __future__ import annotations

import copy
import glob
import itertools
import json
import os
import z3

from props.common import Candidate, Job, JobResult, result_from_engines
from symx import patch
from symx.core import (Engine, Stats, SymBool, SymInt, SymTok, Inconclusive,
                       mkbool, z3val_to_py)

from ai_edge_quantizer import algorithm_manager, qtyping, recipe_manager
from ai_edge_quantizer import quantizer as quantizer_lib

PROP = 'C12'
LEVEL = 'model_checking'
USES_SHIM = False
FUNCS = [recipe_manager.RecipeManager.get_quantization_recipe,
         recipe_manager.RecipeManager.load_quantization_recipe,
         recipe_manager.RecipeManager.add_quantization_config,
         recipe_manager.RecipeManager.get_quantization_configs,
         qtyping.OpQuantizationConfig.to_dict,
         qtyping.OpQuantizationConfig.from_dict,
         qtyping.TensorQuantizationConfig.to_dict,
         qtyping.TensorQuantizationConfig.from_dict,
         qtyping.OpQuantizationConfig.__post_init__]
ASSUMPTIONS = [
    'JSON round trip modelled by J (str-enum -> its value, int/bool/str/None '
    'identity, containers recursive), validated against '
    'json.loads(json.dumps(.)) on the concrete shipped recipes and on the '
    'concretised counterexamples',
    'single updates with fully symbolic config fields; histories of 2 '
    '(thorough: 3) updates with configs from a 6-element concrete set '
    '(rule interactions: replacement, "*" reset, order) over '
    'regexes {".*", "fc"}, operations {"*", FULLY_CONNECTED, CONV_2D, ADD}, '
    'the three algorithms, configs with symbolic scalar fields; the real '
    'support check and default policy are used (not stubbed)',
    'byte-identical quantize() output from the reloaded recipe: follows from '
    'an equal recipe with C14 (same arguments -> same output) within C14\'s '
    'bounds; the FlatBuffers serializer is not encoded',
]
BOUNDS = {
    'quick': {'updates': [1, 2], 'num_bits/block_size': 'unbounded integers'},
    'thorough': {'updates': [1, 2, 3], 'num_bits/block_size': 'unbounded',
                 'configs in histories of 3': '4 of the 6 concrete configs'},
}
REACH = {'rt': ['exported']}
T = qtyping.TensorQuantizationConfig
OPS = [qtyping.TFLOperationName.ALL_SUPPORTED,
       qtyping.TFLOperationName.FULLY_CONNECTED,
       qtyping.TFLOperationName.CONV_2D, qtyping.TFLOperationName.ADD]
ALGS = [algorithm_manager.AlgorithmName.NO_QUANTIZE,
        algorithm_manager.AlgorithmName.MIN_MAX_UNIFORM_QUANT,
        algorithm_manager.AlgorithmName.FLOAT_CASTING]
REGEXES = ['.*', 'fc']


def J(x):
  """Model of json.loads(json.dumps(x)) that keeps symbolic leaves."""
  if isinstance(x, dict):
    return {str(J(k)): J(v) for k, v in x.items()}
  if isinstance(x, (list, tuple)):
    return [J(v) for v in x]
  if isinstance(x, (SymInt, SymBool)):
    return x
  if isinstance(x, str):  # includes str-enums: serialised as their value
    return str(getattr(x, 'value', x))
  if isinstance(x, (bool, int, float)) or x is None:
    return x
  raise Inconclusive(f'J: cannot serialise {type(x).__name__}')


def eq_formula(a, b):
  """z3 formula: two J-values are equal (Python == semantics of JSON data)."""
  if isinstance(a, dict) or isinstance(b, dict):
    if not (isinstance(a, dict) and isinstance(b, dict)) or set(a) != set(b):
      return z3.BoolVal(False)
    return z3.And(*[eq_formula(a[k], b[k]) for k in a]) if a else \
        z3.BoolVal(True)
  if isinstance(a, list) or isinstance(b, list):
    if not (isinstance(a, list) and isinstance(b, list)) or len(a) != len(b):
      return z3.BoolVal(False)
    return z3.And(*[eq_formula(x, y) for x, y in zip(a, b)]) if a else \
        z3.BoolVal(True)
  if isinstance(a, (SymInt, SymBool)) or isinstance(b, (SymInt, SymBool)):
    r = (a == b)
    return r.z if isinstance(r, SymBool) else z3.BoolVal(bool(r))
  return z3.BoolVal(type(a) is type(b) and a == b)


def sym_tensor_cfg(e, name, dtype_choice):
  nb = SymInt.fresh(f'{name}_num_bits')
  sym = SymBool(z3.Bool(f'{name}_symmetric'))
  e.register_input(f'{name}_symmetric', sym.z)
  gran = SymTok.fresh(f'{name}_granularity', list(qtyping.QuantGranularity))
  bs = SymInt.fresh(f'{name}_block_size')
  return T(num_bits=nb, symmetric=sym, granularity=gran.concrete(),
           dtype=dtype_choice, block_size=bs)


CONCRETE_CFGS = [
    None,
    qtyping.OpQuantizationConfig(),
    qtyping.OpQuantizationConfig(
        weight_tensor_config=T(num_bits=8, symmetric=False),
        compute_precision=qtyping.ComputePrecision.FLOAT,
        explicit_dequantize=True),
    qtyping.OpQuantizationConfig(
        activation_tensor_config=T(num_bits=8, symmetric=False),
        weight_tensor_config=T(
            num_bits=8, granularity=qtyping.QuantGranularity.CHANNELWISE),
        compute_precision=qtyping.ComputePrecision.INTEGER),
    qtyping.OpQuantizationConfig(
        weight_tensor_config=T(num_bits=16, dtype=qtyping.TensorDataType.FLOAT),
        compute_precision=qtyping.ComputePrecision.FLOAT,
        explicit_dequantize=True),
    qtyping.OpQuantizationConfig(
        weight_tensor_config=T(num_bits=3), skip_checks=True),
]


CFG_IDS_3 = [0, 2, 3, 4]  # histories of 3 updates: 4 of the 6 configs


def sym_op_cfg(e, name, symbolic_fields=True, ids=None, pin=None):
  """A symbolic OpQuantizationConfig or None (default)."""
  if not symbolic_fields:
    tok = SymTok.fresh(f'{name}_cfgid', list(range(len(CONCRETE_CFGS))))
    if ids is not None:
      e.assume(z3.Or(*[tok.z == i for i in ids]))
    if pin is not None:
      e.assume(tok.z == pin)
    return tok.concrete_index(CONCRETE_CFGS)
  shape = SymTok.fresh(f'{name}_shape', ['none', 'default', 'w', 'aw']).concrete()
  if shape == 'none':
    return None
  if shape == 'default':
    return qtyping.OpQuantizationConfig()
  wdt = SymTok.fresh(f'{name}_wdtype', list(qtyping.TensorDataType)).concrete()
  w = sym_tensor_cfg(e, f'{name}_w', wdt)
  a = None
  if shape == 'aw':
    adt = SymTok.fresh(f'{name}_adtype',
                       list(qtyping.TensorDataType)).concrete()
    a = sym_tensor_cfg(e, f'{name}_a', adt)
  cp = SymTok.fresh(f'{name}_precision',
                    list(qtyping.ComputePrecision)).concrete()
  xd = SymBool(z3.Bool(f'{name}_explicit_dequantize'))
  sk = SymBool(z3.Bool(f'{name}_skip_checks'))
  e.register_input(f'{name}_explicit_dequantize', xd.z)
  e.register_input(f'{name}_skip_checks', sk.z)
  return qtyping.OpQuantizationConfig(
      activation_tensor_config=a, weight_tensor_config=w, compute_precision=cp,
      explicit_dequantize=xd, skip_checks=sk)


def cfg_eq(a, b):
  """Equality of two resolved configs as a z3 formula."""
  return eq_formula(J(a.to_dict()), J(b.to_dict()))


def make_harness(n, fix=None):
  def h(e):
    # through the public facade (Quantizer), whose RecipeManager is inspected
    q1 = quantizer_lib.Quantizer(bytearray(b''), None)
    rm = q1._recipe_manager
    applied = 0
    for i in range(n):
      toks = [SymTok.fresh(f'u{i}_regex', REGEXES),
              SymTok.fresh(f'u{i}_op', OPS), SymTok.fresh(f'u{i}_alg', ALGS)]
      if i == 0 and fix is not None:  # work split over the first update
        for t, v in zip(toks, fix[:3]):
          e.assume(t.z == v)
      regex, op, alg = [t.concrete() for t in toks]
      try:
        cfg = sym_op_cfg(e, f'u{i}', symbolic_fields=(n == 1),
                         ids=CFG_IDS_3 if n >= 3 else None,
                         pin=fix[3] if i == 0 and fix is not None
                         and len(fix) > 3 else None)
      except ValueError:
        raise _Skip()
      if applied:
        # an export between two updates (what quantize(), need_calibration
        # and save() do) must not influence what is exported later
        q1.get_quantization_recipe()
      try:
        q1.update_quantization_recipe(regex, op, cfg, alg)
        applied += 1
      except ValueError:
        pass  # refused at update time: not part of the recipe
    if not applied:
      return
    rec = q1.get_quantization_recipe()
    e.reach('exported')
    rec_j = J(rec)
    q2 = quantizer_lib.Quantizer(bytearray(b''), None)
    rm2 = q2._recipe_manager
    try:
      q2.load_quantization_recipe(copy.deepcopy(rec_j))
      rm2 = q2._recipe_manager
    except Inconclusive:
      raise
    except Exception as ex:  # pylint: disable=broad-except
      e.check('C12.saved_recipe_reloads', False,
              info=[f'{type(ex).__name__}: {str(ex)[:100]}',
                    _concrete_preview(rec_j)])
      return
    rec2_j = J(q2.get_quantization_recipe())
    e.check('C12.reloaded_recipe_equals_saved_recipe',
            eq_formula(rec2_j, rec_j),
            info=[_concrete_preview(rec_j), _concrete_preview(rec2_j)])
    for op in OPS[1:]:
      for scope in ('fc;', 'other;'):
        k1, c1 = rm.get_quantization_configs(op, scope)
        k2, c2 = rm2.get_quantization_configs(op, scope)
        e.check('C12.reloaded_recipe_resolves_identically',
                z3.And(z3.BoolVal(str(getattr(k1, 'value', k1)) == str(
                    getattr(k2, 'value', k2))), cfg_eq(c1, c2)),
                info=[op.value, scope, str(k1), str(k2)])
    e.check('C12.need_calibration_preserved',
            rm.need_calibration() == rm2.need_calibration())
  return h


class _Skip(BaseException):
  pass


def _concrete_preview(j):
  def c(x):
    if isinstance(x, dict):
      return {k: c(v) for k, v in x.items()}
    if isinstance(x, list):
      return [c(v) for v in x]
    if isinstance(x, (SymInt, SymBool)):
      return f'<{x.z}>'
    return x
  return json.dumps(c(j))[:300]


def _to_candidate(tag, v):
  data = {k: z3val_to_py(x) for k, x in v.model_values.items()}
  data['tag'] = tag
  data['info'] = v.info
  data['path'] = [x if isinstance(x, bool) else x[0] for x in v.path]
  return Candidate(v.name, data)


def job_rt(job):
  n = job.args['n']
  en = Engine(solver_timeout_ms=20000, max_paths=300000, wall_budget_s=3000)
  harness = make_harness(n, job.args.get('fix'))

  def h(e):
    try:
      harness(e)
    except _Skip:
      pass
  en.explore(h)
  r = result_from_engines(job.name, [(f'rt/{n}', en)], _to_candidate)
  # dedupe by (obligation, error text)
  seen, out = set(), []
  for c in r.candidates:
    key = (c.obligation, str(c.data.get('info'))[:80])
    if key not in seen:
      seen.add(key)
      out.append(c)
  r.candidates = out[:12]
  r.samples = [f'{n} symbolic update(s) -> export -> JSON -> reload: '
               f'{en.stats.paths} paths']
  return r


def job_files(job):
  """Concrete: every shipped recipe file loads; defaults re-export to
  themselves (also validates J against the real json module)."""
  bad = []
  n = 0
  files = sorted(glob.glob('/repo/ai_edge_quantizer/recipes/*.json'))
  for f in files:
    n += 1
    with open(f) as fh:
      rec = json.load(fh)
    q = quantizer_lib.Quantizer(bytearray(b''), None)
    try:
      q.load_quantization_recipe(f)
    except Exception as ex:  # pylint: disable=broad-except
      bad.append(f'{os.path.basename(f)}: does not load: '
                 f'{type(ex).__name__}: {ex}')
      continue
    out = q.get_quantization_recipe()
    real = json.loads(json.dumps(out))
    if J(out) != real:
      bad.append(f'{os.path.basename(f)}: J model differs from the json module')
    if os.path.basename(f).startswith(('default_', 'dynamic_')) and real != rec:
      bad.append(f'{os.path.basename(f)}: re-export differs from the file')
    # and a second round trip is a fixpoint
    q2 = quantizer_lib.Quantizer(bytearray(b''), real)
    if json.loads(json.dumps(q2.get_quantization_recipe())) != real:
      bad.append(f'{os.path.basename(f)}: second round trip differs')
  # save(): the recipe written next to the model is the recipe that produced
  # it, loads from its path, and reproduces the saved model byte for byte
  import tempfile, shutil
  from props import pipeline as P
  mb = P.model_bytes_of('fc_fc')
  for tag, upd in (
      ('WO', [('.*', '*', 'WO')]),
      ('DRQ then WO4 on fc1', [('.*', '*', 'DRQ'), ('fc1', 'FULLY_CONNECTED',
                                                     'WO4')]),
      ('FP16 then no_quantize on y', [('.*', '*', 'FP16'),
                                      ('^y;$', '*', 'NOQ')])):
    n += 1
    d = tempfile.mkdtemp(prefix='c12_save_')
    try:
      q = quantizer_lib.Quantizer(mb, None)
      for rx, op, mode in upd:
        r = P.rule(rx, op, mode)
        q.update_quantization_recipe(
            r['regex'], r['operation'],
            qtyping.OpQuantizationConfig.from_dict(r['op_config'])
            if r.get('op_config') else None, r['algorithm_key'])
      res = q.quantize()
      res.save(d, 'm')
      with open(os.path.join(d, 'm_recipe.json')) as fh:
        on_disk = json.load(fh)
      if on_disk != json.loads(json.dumps(q.get_quantization_recipe())):
        bad.append(f'save() [{tag}]: recipe file differs from the recipe of '
                   'the Quantizer that produced the model')
      with open(os.path.join(d, 'm.tflite'), 'rb') as fh:
        if fh.read() != bytes(res.quantized_model):
          bad.append(f'save() [{tag}]: model file differs from the result')
      q2 = quantizer_lib.Quantizer(mb, os.path.join(d, 'm_recipe.json'))
      if bytes(q2.quantize().quantized_model) != bytes(res.quantized_model):
        bad.append(f'save() [{tag}]: quantizing with the saved recipe file '
                   'gives other bytes than the saved model')
    except Exception as ex:  # pylint: disable=broad-except
      bad.append(f'save() [{tag}]: {type(ex).__name__}: {ex}')
    finally:
      shutil.rmtree(d, ignore_errors=True)
  from ai_edge_quantizer import recipe as recipe_lib
  n += 1
  q = quantizer_lib.Quantizer(bytearray(b''), recipe_lib.dynamic_wi8_afp32())
  if json.loads(json.dumps(q.get_quantization_recipe())) != \
      recipe_lib.dynamic_wi8_afp32():
    bad.append('recipe.dynamic_wi8_afp32(): re-export differs')
  st = {'paths': n, 'decisions': n, 'obligations': n,
        'discharged': n - len(bad), 'solver_calls': 0, 'solver_time': 0.0,
        'reached': {'files': n}}
  cands = [Candidate('C12.shipped_recipe_files_load_and_reexport',
                     {'tag': 'files', 'problems': bad})] if bad else []
  return JobResult(job.name, st, cands, [], {}, samples=[
      f'{len(files)} shipped recipe files + recipe helper: load, re-export'])


def jobs(tier, seed):
  js = [Job('files', job_files, {})]
  for n in BOUNDS[tier]['updates']:
    if n == 1:
      js.append(Job('rt:1', job_rt, {'n': 1}))
    else:
      dims = [range(len(REGEXES)), range(len(OPS)), range(len(ALGS))]
      if n >= 3:
        dims.append(CFG_IDS_3)
      for fx in itertools.product(*dims):
        js.append(Job(f'rt:{n}:shard' + '.'.join(map(str, fx)), job_rt,
                      {'n': n, 'fix': list(fx)}))
  return js


# ---------------------------------------------------------------------------
# replay with the real json module on concretised values
# ---------------------------------------------------------------------------
def _build_cfg(d, name):
  if f'{name}_cfgid' in d:
    return CONCRETE_CFGS[d[f'{name}_cfgid']]
  shapes = ['none', 'default', 'w', 'aw']
  shape = shapes[d.get(f'{name}_shape', 0)]
  if shape == 'none':
    return None
  if shape == 'default':
    return qtyping.OpQuantizationConfig()

  def tcfg(n, dt):
    return T(num_bits=int(d.get(f'{n}_num_bits', 0)),
             symmetric=bool(d.get(f'{n}_symmetric', False)),
             granularity=list(qtyping.QuantGranularity)[
                 d.get(f'{n}_granularity', 0)],
             dtype=dt, block_size=int(d.get(f'{n}_block_size', 0)))
  dts = list(qtyping.TensorDataType)
  w = tcfg(f'{name}_w', dts[d.get(f'{name}_wdtype', 0)])
  a = tcfg(f'{name}_a', dts[d.get(f'{name}_adtype', 0)]) if shape == 'aw' \
      else None
  return qtyping.OpQuantizationConfig(
      activation_tensor_config=a, weight_tensor_config=w,
      compute_precision=list(qtyping.ComputePrecision)[
          d.get(f'{name}_precision', 0)],
      explicit_dequantize=bool(d.get(f'{name}_explicit_dequantize', False)),
      skip_checks=bool(d.get(f'{name}_skip_checks', False)))


def replay(c):
  d = c['data']
  if d.get('tag') == 'files':
    return True, 'files', str(d['problems'])
  n = int(d['tag'].split('/')[1])
  q = quantizer_lib.Quantizer(bytearray(b''), None)
  hist = []
  for i in range(n):
    if f'u{i}_regex' not in d:
      break
    regex = REGEXES[d[f'u{i}_regex']]
    op = OPS[d[f'u{i}_op']]
    alg = ALGS[d[f'u{i}_alg']]
    try:
      cfg = _build_cfg(d, f'u{i}')
      if hist:
        q.get_quantization_recipe()  # export between updates, as the harness
      q.update_quantization_recipe(regex, op, cfg, alg)
      hist.append(f'update({regex!r},{op.value},{alg.value},{cfg})')
    except ValueError:
      hist.append(f'update({regex!r},{op.value},{alg.value}) refused')
  rec = q.get_quantization_recipe()
  saved = json.loads(json.dumps(rec))
  q2 = quantizer_lib.Quantizer(bytearray(b''), None)
  try:
    q2.load_quantization_recipe(copy.deepcopy(saved))
  except Exception as ex:  # pylint: disable=broad-except
    wc = ('exported rule without weight_tensor_config cannot be reloaded'
          if isinstance(ex, KeyError) and 'weight_tensor_config' in str(ex)
          else f'reload raises {type(ex).__name__}')
    return True, wc, f'{hist}: saved {json.dumps(saved)[:200]}: reload: ' \
                     f'{type(ex).__name__}: {ex}'
  again = json.loads(json.dumps(q2.get_quantization_recipe()))
  bad = []
  if again != saved:
    bad.append(f'reloaded recipe {json.dumps(again)[:160]} != saved '
               f'{json.dumps(saved)[:160]}')
  for op in OPS[1:]:
    for scope in ('fc;', 'other;'):
      r1 = q._recipe_manager.get_quantization_configs(op, scope)
      r2 = q2._recipe_manager.get_quantization_configs(op, scope)
      if str(getattr(r1[0], 'value', r1[0])) != str(getattr(
          r2[0], 'value', r2[0])) or json.dumps(r1[1].to_dict()) != json.dumps(
              r2[1].to_dict()):
        bad.append(f'resolve({op.value},{scope}) differs: {r1} vs {r2}')
  nq = any(r['algorithm_key'] == 'no_quantize' and r['op_config'] !=
           qtyping.OpQuantizationConfig().to_dict() for r in saved)
  wc = ('no_quantize rule saved with a config that the reload drops'
        if bad and nq else 'recipe round trip')
  return bool(bad), wc, f'{hist}: {bad[:2]}'
