"""C19 - each subgraph of a multi-signature model is transformed as if it stood
alone.  On one engine path the real pipeline runs on the 2-subgraph model and
on the two single-subgraph models made of its subgraphs, with the SAME
symbolic statistics; z3 decides equality of the symbolic quantization
parameters, everything structural is compared concretely."""
from __future__ import annotations

import copy
import re
import numpy as np
import z3

from props import pipeline as P
from props.common import Candidate, Job, JobResult
from symx import oracles, skeletons, symnp
from symx.core import Engine, Stats, z3val_to_py
from symx.symnp import SymArray
from tensorflow.lite.tools import flatbuffer_utils

PROP = 'C19'
LEVEL = 'model_checking'
FUNCS = P.FUNCS
ASSUMPTIONS = P.ASSUMPTIONS_COMMON + [
    'the single-subgraph models are built by the same builder functions as '
    'the subgraphs of the multi-subgraph model (same tensor names, data, '
    'options); statistics are the same symbolic variables in all three runs',
]
BOUNDS = {
    'quick': {'pairs': '8 seeded pairs of random DAG subgraphs; unnamed / equally named subgraphs; same constant name in non-adjacent subgraphs; two triples of subgraphs; independent; sharing a constant buffer; equal '
              'structure with different names; insertion-heavy in both',
              'recipes': 'shipped + selective per op'},
    'thorough': {'pairs': 'same + 3 subgraphs + 60 seeded pairs of random '
                 'DAG subgraphs', 'recipes': 'same + a16/mixed'},
}
REACH = {'pair': ['compared']}
DATA = np.array([[0.5, -1.0], [2.0, 0.25]], np.float32)


# subgraph builders: f(mb, name_suffix, shared) -> Sub
def sg_fc_tanh(mb, sfx, shared=None):
  g = mb.subgraph('fc_tanh' + sfx)
  x = g.input('x' + sfx, (1, 2))
  if shared is not None and 'buf' in shared:
    w = g.const('w' + sfx, DATA, buffer=shared['buf'])
  else:
    w = g.const('w' + sfx, DATA)
    if shared is not None:
      shared['buf'] = g.sg.tensors[w].buffer
  a = g.fc(x, 'fc' + sfx, bias=False, w_idx=w)
  g.output(g.unary('TANH', a, 'y' + sfx))
  return g


def sg_gelu_fc(mb, sfx, shared=None):
  g = mb.subgraph('gelu_fc' + sfx)
  x = g.input('x' + sfx, (1, 2))
  t = g.unary('GELU', x, 'gelu' + sfx)
  if shared is not None and 'buf' in shared:
    w = g.const('w' + sfx, DATA, buffer=shared['buf'])
  else:
    w = g.const('w' + sfx, DATA if shared is not None else DATA * 2)
    if shared is not None:
      shared['buf'] = g.sg.tensors[w].buffer
  g.output(g.fc(t, 'y' + sfx, bias=False, w_idx=w))
  return g


def sg_mid_out(mb, sfx, shared=None):
  g = mb.subgraph('mid_out' + sfx)
  x = g.input('x' + sfx, (1, 2))
  a = g.fc(x, 'fc' + sfx)
  g.output(g.unary('TANH', a, 'y' + sfx))
  g.output(a)
  return g


def sg_concat(mb, sfx, shared=None):
  g = mb.subgraph('concat' + sfx)
  x = g.input('x' + sfx, (1, 2))
  z = g.input('z' + sfx, (1, 2))
  t = g.unary('LOGISTIC', x, 't' + sfx)
  g.output(g.concat([t, z], 'y' + sfx))
  g.output(g.unary('RELU', t, 'r' + sfx))
  return g


def sg_chain3(mb, sfx, shared=None):
  g = mb.subgraph('chain3' + sfx)
  x = g.input('x' + sfx, (1, 2))
  t = g.unary('TANH', x, 't1' + sfx)
  t = g.unary('TANH', t, 't2' + sfx)
  g.output(g.unary('TANH', t, 'y' + sfx))
  return g


def sg_fc_fc(mb, sfx, shared=None):
  g = mb.subgraph('fc_fc' + sfx)
  x = g.input('x' + sfx, (1, 2))
  a = g.fc(x, 'fc1' + sfx, bias=False)
  g.output(g.fc(a, 'y' + sfx, bias=True))
  return g


def sg_late_input(mb, sfx, shared=None):
  """second graph input is first consumed by the last operator"""
  g = mb.subgraph('late_input' + sfx)
  x = g.input('x' + sfx, (1, 2))
  z = g.input('z' + sfx, (1, 2))
  a = g.unary('GELU', x, 'g' + sfx)
  b = g.unary('LOGISTIC', a, 'l' + sfx)
  g.output(g.binary('ADD', b, z, 'y' + sfx))
  return g


PAIRS = {
    'independent': ([(sg_fc_tanh, '_a'), (sg_gelu_fc, '_b')], False),
    'shared_buffer': ([(sg_fc_tanh, '_a'), (sg_gelu_fc, '_b')], True),
    'equal_structure': ([(sg_fc_tanh, '_a'), (sg_fc_tanh, '_b')], False),
    'insertions_in_both': ([(sg_mid_out, '_a'), (sg_concat, '_b')], False),
    'swapped': ([(sg_concat, '_a'), (sg_mid_out, '_b')], False),
    # a tensor index produced late in one subgraph is a constant / an input
    # consumed early in the next one (tables keyed by tensor index only)
    'deep_then_constants': ([(sg_chain3, '_a'), (sg_fc_fc, '_b')], False),
    'constants_then_deep': ([(sg_fc_fc, '_a'), (sg_chain3, '_b')], False),
    'deep_then_late_input': ([(sg_chain3, '_a'), (sg_late_input, '_b')],
                             False),
}
PAIRS['three'] = ([(sg_mid_out, '_a'), (sg_gelu_fc, '_b'),
                   (sg_concat, '_c')], False)
PAIRS['three_fc'] = ([(sg_fc_fc, '_a'), (sg_fc_tanh, '_b'),
                      (sg_fc_fc, '_c')], False)
def sg_fc_named_w(mb, sfx, shared=None):
  """FC whose weight tensor is called 'w' in every subgraph that uses this
  builder (tensor names need only be unique per subgraph in the schema; the
  library refuses model-wide duplicates - that refusal is accepted below)."""
  g = mb.subgraph('fc_w' + sfx)
  x = g.input('x' + sfx, (1, 2))
  mb.all_names.discard('w')
  k = float(len(sfx) + ord(sfx[-1]) % 5)
  w = g.const('w', DATA * np.float32(1.0 + 0.5 * k))
  g.output(g.fc(x, 'y' + sfx, bias=False, w_idx=w))
  return g


PAIRS['same_constant_name_nonadjacent'] = (
    [(sg_fc_named_w, '_a'), (sg_gelu_fc, '_b'), (sg_fc_named_w, '_c')], False)
# subgraph names are optional and need not be unique in the schema: the same
# pairs with unnamed / equally named subgraphs (pair[2] = naming)
PAIRS['deep_then_constants/unnamed'] = (
    [(sg_chain3, '_a'), (sg_fc_fc, '_b')], False, 'none')
PAIRS['insertions_in_both/same_name'] = (
    [(sg_mid_out, '_a'), (sg_concat, '_b')], False, 'same')
PAIRS['three/unnamed'] = ([(sg_mid_out, '_a'), (sg_gelu_fc, '_b'),
                           (sg_concat, '_c')], False, 'none')
PAIRS_THOROUGH = {
    'four': ([(sg_fc_fc, '_a'), (sg_chain3, '_b'), (sg_mid_out, '_c'),
              (sg_gelu_fc, '_d')], False),
}


def _random_pairs(seed, n):
  """Pairs of seeded random DAG subgraphs (thorough tier)."""
  out = {}
  for i in range(n):
    def mk(j, i=i):
      def f(mb, sfx, shared=None, j=j, i=i):
        rng = np.random.default_rng(seed * 100003 + i * 7 + j)
        return P.random_dag(rng, int(rng.integers(2, 5)), i, sfx=sfx, mb=mb,
                            build=False)
      return f
    out[f'random{seed}_{i}'] = ([(mk(0), '_a'), (mk(1), '_b')], False)
  return out


def all_pairs(tier=None):
  import os
  d = {**PAIRS, **PAIRS_THOROUGH}
  d.update(_random_pairs(int(os.environ.get('VERIF_SEED', '0')), 60))
  return d


def build(pair, only=None):
  builders, share = pair[0], pair[1]
  naming = pair[2] if len(pair) > 2 else 'unique'
  mb = skeletons.ModelBuilder()
  shared = {} if share else None
  for i, (f, sfx) in enumerate(builders):
    if only is None or only == i:
      g = f(mb, sfx, shared)
      if naming == 'none':
        g.sg.name = None
      elif naming == 'same':
        g.sg.name = 'main'
      mb.signature(f'sig{sfx}', g)
  return mb.build()


def _qeq(a, b):
  """z3 formula: two quantization entries (lists of 0-d arrays) are equal."""
  if (a is None) != (b is None):
    return False
  if a is None:
    return True
  if len(a) != len(b):
    return False
  cs = []
  for x, y in zip(a, b):
    r = symnp.array_equal(symnp.asarray(x) if isinstance(x, SymArray) else
                          np.asarray(x), y if isinstance(y, SymArray) else
                          np.asarray(y))
    if r is False:
      return False
    if r is not True:
      cs.append(r.z)
  return z3.And(*cs) if cs else True


def compare_subgraphs(e, multi, single, si, inp_multi):
  """subgraph si of `multi` vs subgraph 0 of `single`."""
  pr = []
  sym = []
  ga, gb = multi.subgraphs[si], single.subgraphs[0]
  if len(ga.tensors) != len(gb.tensors):
    pr.append(f'tensor count {len(ga.tensors)} vs {len(gb.tensors)}')
  if len(ga.operators) != len(gb.operators):
    pr.append(f'operator count {len(ga.operators)} vs {len(gb.operators)}')
  for ti, (ta, tb) in enumerate(zip(ga.tensors, gb.tensors)):
    nm = oracles.tname(ta)
    if oracles.tname(ta) != oracles.tname(tb) or ta.type != tb.type or list(
        ta.shape) != list(tb.shape):
      pr.append(f'tensor {ti} {nm!r}: name/type/shape differ '
                f'({ta.type} vs {tb.type})')
      continue
    qa, qb = ta.quantization, tb.quantization
    ha = qa is not None and qa.scale is not None
    hb = qb is not None and qb.scale is not None
    if ha != hb:
      pr.append(f'tensor {nm!r}: quantized in one, not in the other')
      continue
    if ha:
      for f1, f2 in ((qa.scale, qb.scale), (qa.zeroPoint, qb.zeroPoint)):
        r = _qeq(f1, f2)
        if r is False:
          pr.append(f'tensor {nm!r}: quantization parameters differ')
        elif r is not True:
          sym.append(r)
      if (qa.quantizedDimension or 0) != (qb.quantizedDimension or 0):
        pr.append(f'tensor {nm!r}: quantized dimension differs')
    da = multi.buffers[ta.buffer].data
    db = single.buffers[tb.buffer].data
    if (da is None) != (db is None):
      pr.append(f'tensor {nm!r}: constant in one, not in the other')
    elif da is not None:
      r = symnp.array_equal(da, db) if (isinstance(da, SymArray) or isinstance(
          db, SymArray)) else np.array_equal(np.asarray(da), np.asarray(db))
      if r is False:
        pr.append(f'tensor {nm!r}: constant contents differ')
      elif r is not True:
        sym.append(r.z)
  for oi, (a, b) in enumerate(zip(ga.operators, gb.operators)):
    ca = multi.operatorCodes[a.opcodeIndex].builtinCode
    cb = single.operatorCodes[b.opcodeIndex].builtinCode
    if ca != cb or list(a.inputs) != list(b.inputs) or list(a.outputs) != list(
        b.outputs) or oracles._options_key(a) != oracles._options_key(b):
      pr.append(f'op {oi}: differs (code {ca} vs {cb}, inputs '
                f'{list(a.inputs)} vs {list(b.inputs)}, outputs '
                f'{list(a.outputs)} vs {list(b.outputs)})')
  if list(ga.inputs) != list(gb.inputs) or list(ga.outputs) != list(gb.outputs):
    pr.append(f'subgraph I/O differ: {list(ga.outputs)} vs {list(gb.outputs)}')
  return pr, sym


def make_harness(pair, recipe, backend):
  multi_bytes = build(pair)
  singles = [build(pair, only=i) for i in range(len(pair[0]))]

  def h(e):
    inp = flatbuffer_utils.read_model_from_bytearray(bytearray(multi_bytes))
    rm_probe = P.recipe_manager.RecipeManager()
    rm_probe.load_quantization_recipe(copy.deepcopy(recipe))
    qsvs = P.symbolic_qsvs(e, inp, backend) if rm_probe.need_calibration() \
        else None

    def cp(q):
      return None if q is None else {k: dict(v) for k, v in q.items()}

    om = P.run_pipeline(e, multi_bytes, recipe, backend, qsvs=cp(qsvs))
    outs = []
    for i, sb in enumerate(singles):
      names = None
      q_i = cp(qsvs)
      if q_i is not None:
        sm = flatbuffer_utils.read_model_from_bytearray(bytearray(sb))
        keep = {oracles.tname(t) for t in sm.subgraphs[0].tensors}
        q_i = {k: v for k, v in q_i.items() if k in keep}
      outs.append(P.run_pipeline(e, sb, recipe, backend, qsvs=q_i))
    e.reach('compared')
    any_single_raised = [o.raised for o in outs if o.raised is not None]
    if om.raised is not None:
      # the multi-subgraph model may be rejected only if some subgraph alone
      # is rejected too, or for a conflict between the sharers (C15)
      ok = bool(any_single_raised) or 'share the same buffer' in str(
          om.raised) or 'is not unique in the model' in str(om.raised)
      e.check('C19.rejected_only_if_a_subgraph_alone_is', ok,
              info=[f'{type(om.raised).__name__}: {str(om.raised)[:120]}'])
      return
    if any_single_raised:
      e.check('C19.accepted_only_if_each_subgraph_alone_is', False,
              info=[f'{type(x).__name__}: {str(x)[:120]}'
                    for x in any_single_raised])
      return
    for i, o in enumerate(outs):
      # the signature of subgraph i denotes the same tensors as stand-alone
      def sig_of(m, si):
        for sd in (m.signatureDefs or []):
          if sd.subgraphIndex == si:
            return ([(t.name, t.tensorIndex) for t in sd.inputs or []],
                    [(t.name, t.tensorIndex) for t in sd.outputs or []])
        return None
      e.check('C19.signature_equals_standalone',
              sig_of(om.model, i) == sig_of(o.model, 0),
              info=[f'subgraph {i}', str(sig_of(om.model, i))[:120],
                    str(sig_of(o.model, 0))[:120]])
      pr, sym = compare_subgraphs(e, om.model, o.model, i, om.input_model)
      e.check('C19.subgraph_equals_standalone_structure', not pr,
              info=[f'subgraph {i}: {x}' for x in pr[:4]])
      if sym:
        e.check('C19.subgraph_equals_standalone_parameters', z3.And(*sym),
                info=[f'subgraph {i}: symbolic parameters/contents differ'])
  return h


def pair_recipes(pair, tier):
  mb = build(pair)
  fam = P.recipe_family(mb, tier)
  if tier == 'quick':
    keep = {k: v for k, v in fam.items()
            if k.startswith('shipped:') or k.startswith('only:')
            or k.startswith('allbut:') or k == 'all:SRQ16'}
    return keep
  return fam


def job_pair(job):
  name, tier = job.args['pair'], job.args['tier']
  pair = all_pairs()[name]
  fam = pair_recipes(pair, tier)
  st = Stats()
  cands, inconc, samples = [], [], []
  for rname in job.args['recipes']:
    recipe = fam[rname]
    en = Engine(solver_timeout_ms=20000, max_paths=3000, wall_budget_s=120)
    en.explore(make_harness(pair, recipe, 'UF'))
    st.merge(en.stats)
    inconc += [f'{name}/{rname}: {x}' for x in en.inconclusive]
    seen = set()
    for v in en.violations:
      key = (v.name, str(v.info)[:160])
      if key in seen:
        continue
      seen.add(key)
      status, vals = Engine(solver_timeout_ms=60000).concretize(
          make_harness(pair, recipe, 'BITS'), v, timeout_ms=60000)
      data = {'pair': name, 'recipe': rname, 'info': v.info,
              'concretize': status,
              'stats': {k: z3val_to_py(x) for k, x in
                        (vals if status == 'sat' else v.model_values).items()}}
      c = Candidate(v.name, data)
      c.job = job.name
      cands.append(c)
    if len(samples) < 2:
      samples.append(f'pair {name} x {rname}: {en.stats.paths} paths, 3 '
                     'pipeline runs per path on shared symbolic statistics')
  return JobResult(job.name, st.as_dict(), cands, inconc, {}, samples=samples)


def jobs(tier, seed):
  js = []
  pairs = dict(PAIRS)
  import os
  rnd = _random_pairs(int(os.environ.get('VERIF_SEED', '0')), 60)
  if tier == 'thorough':
    pairs.update(PAIRS_THOROUGH)
    pairs.update(rnd)
  else:
    pairs.update({k: rnd[k] for k in list(rnd)[:8]})
  for name, pair in pairs.items():
    names = list(pair_recipes(pair, tier))
    for i in range(0, len(names), 4):
      js.append(Job(f'pair:{name}:{i // 4}', job_pair,
                    {'pair': name, 'tier': tier, 'recipes': names[i:i + 4]}))
  return js


def replay(c):
  from ai_edge_quantizer import quantizer as quantizer_lib
  d = c['data']
  pair = all_pairs()[d['pair']]
  recipe = pair_recipes(pair, 'thorough')[d['recipe']]
  mbytes = build(pair)
  inp = flatbuffer_utils.read_model_from_bytearray(bytearray(mbytes))
  # statistics keyed by tensor name so that all runs share them
  stats = d.get('stats') or {}
  q_all = P.concrete_qsvs(inp, stats)

  def run(mb):
    q = quantizer_lib.Quantizer(mb, copy.deepcopy(recipe))
    m = flatbuffer_utils.read_model_from_bytearray(bytearray(mb))
    keep = {oracles.tname(t) for g in m.subgraphs for t in g.tensors}
    qs = {k: {kk: np.array(vv) for kk, vv in v.items()}
          for k, v in q_all.items() if k in keep} if q.need_calibration else None
    try:
      with np.errstate(all='ignore'):
        r = q.quantize(qs)
      return None, flatbuffer_utils.read_model_from_bytearray(
          bytearray(r.quantized_model))
    except Exception as ex:  # pylint: disable=broad-except
      return ex, None
  exm, mm = run(mbytes)
  singles = [run(build(pair, only=i)) for i in range(len(pair[0]))]
  pr = []
  if exm is not None:
    if not any(s[0] is not None for s in singles) and \
        'share the same buffer' not in str(exm):
      pr.append(f'multi-subgraph model rejected ({exm}) although every '
                'subgraph alone is accepted')
  elif any(s[0] is not None for s in singles):
    pr.append('a subgraph alone is rejected but the multi model is accepted')
  else:
    for i, (_, sm) in enumerate(singles):
      p, sym = compare_subgraphs(None, mm, sm, i, inp)
      pr += [f'subgraph {i}: {x}' for x in p]

      def sig_of(m, si):
        for sd in (m.signatureDefs or []):
          if sd.subgraphIndex == si:
            return ([(t.name, t.tensorIndex) for t in sd.inputs or []],
                    [(t.name, t.tensorIndex) for t in sd.outputs or []])
        return None
      if sig_of(mm, i) != sig_of(sm, 0):
        pr.append(f'subgraph {i}: signature {sig_of(mm, i)} differs from '
                  f'stand-alone {sig_of(sm, 0)}')
  if not pr and d.get('concretize') == 'unsat':
    return 'drop', 'spurious', ''
  wc = 'cross-talk: ' + re.sub(r"'[^']*'|\d+", '_', ' | '.join(pr))[:70]
  return bool(pr), wc, f"pair={d['pair']} recipe={d['recipe']}: {pr[:3]}"
