"""Regenerates MANIFEST.json from the table below (keeps it valid)."""
import json, os
BASE_OFF = ("cd /repo && /venv/bin/python -m pytest -ra -q -p no:cacheprovider "
            "--timeout=900 --continue-on-collection-errors")
CHECKS = {}
NA = {
 'C06': "LiteRT float/hybrid kernel behaviour on arbitrary inputs: compiled C++ behind FFI with no source or IR in the sandbox, cannot be encoded for a solver; the Python side (DEQUANTIZE wiring, dtype/params written to the flatbuffer, stored bytes) is decided under C02/C03/C05",
 'C07': "LiteRT integer kernel arithmetic for 21 operators: compiled C++ behind FFI with no source or IR in the sandbox; a hand model of the kernels would not be the real code",
}

def add(pid, category, text, note, technique, design_ref):
  CHECKS[pid] = {
    'property_id': pid,
    'quick_cmd': f'./check {pid} --tier quick',
    'thorough_cmd': f'./check {pid} --tier thorough',
    'evidence_file': f'/verif/evidence/{pid}.json',
    'replay_cmd_template': f'./check {pid} --replay {{path}}',
    'engine': 'symx',
    'level_claimed': {'category': category, 'text': text, 'design_ref': design_ref},
    'level_note': note,
    'technique': technique,
  }

add('C17', 'proof',
    "Every law is a set of SMT obligations over the terms produced by executing the real uniform_quantize_tensor functions on symbolic arrays: bit-precise (IEEE-754 float32 / two's complement) for sign, finiteness, range, zero-point, dtype, wrap-around, per-channel broadcast and bias laws over ALL finite float32 inputs; real-arithmetic rounding-error model (sound over-approximation of float32) for the half-step error bounds, coverage, code round trip and monotonicity. unsat = holds for every value at the stated widths/shapes; sat is replayed on the real NumPy code before it is reported. Out-of-range inputs saturate at the end of the range they lie beyond (bit-precise, all finite float32 x).",
    "Trusted: z3; the symbolic NumPy shim (validated against real NumPy by selftest); the rounding model fl(v)=v(1+e), |e|<=2^-24 plus subnormal term; assume-guarantee composition of Lemma P (library parameters satisfy G) with the laws proved for arbitrary parameters in G. Bounds: num_bits {4,8,16}, one symbolic element per scalar law, tensors of rank<=3 (quick) / <=4 (thorough) for the broadcast law, float32 statistics. Tolerances: half a step + 8*(2^bits)*2^-24 steps of float32 rounding.",
    "symbolic execution of the real functions (operator overloading, module-global np rebound) + z3 QF_FP/QF_BV/QF_NRA queries",
    'DESIGN.md 3/C17')

add('C11', 'model_checking',
    "One inductive step from an ARBITRARY valid RecipeManager state (symbolic regex/op/algorithm/config tokens inside the real OrderedDict) through the real add_quantization_config, load_quantization_recipe and get_quantization_configs, explored path-exhaustively by the symbolic executor; on every path z3 decides that the resulting state, the raise/no-raise outcome, the resolved (algorithm, config), purity and repeatability equal a reference written from the property text, and that the representation invariant is preserved. Covers histories of any length over states within the bound; scripted sequences in the unit tests cover a dozen.",
    "Assumes: re.search and the support check are uninterpreted predicates (deterministic functions of their arguments - validated concretely against the real check for every (algorithm, op) and 5 configs); token alphabets of 4 ops/3 configs/3 algorithms (symmetry reduction); bounds R<=2 scopes x K<=2 rules (quick), total rules<=5 with R<=3,K<=3 (thorough); the representation invariant is checked, not assumed, to be inductive.",
    "path-exhaustive symbolic execution of the real RecipeManager on symbolic tokens; z3 (QF_UFLIA) decides state/result equality with a reference model per path",
    'DESIGN.md 3/C11')

add('C10', 'model_checking',
    "Decides the core of the statement for ALL tensor names at once: the scope string built by Calibrator._get_op_scope equals the one built by ParamsGenerator._get_op_scope for every operator shape (<=3 outputs, any absent) with symbolic z3-string tensor names; two scopes are indistinguishable by every regex iff they are equal strings. Second part (never-missing statistics, every signature): every runtime tensor looked up by the real materialize functions is written by the real calibration function of the same op, explored on the skeleton family with a fake interpreter honouring subgraph_index.",
    "Assumes: get_tensor_name rebound to symbolic names (length<=6 over a 6-letter alphabet incl. separators); equal (op, scope) pairs resolve equally by C11; interpreter tensor contents are arbitrary (FFI not modelled).",
    "symbolic execution of both _get_op_scope copies on z3 String names; z3 sequence theory decides equality",
    'DESIGN.md 3/C10')

add('C16', 'model_checking',
    "The real _process_constant_map and _serialize_large_model run with SYMBOLIC buffer lengths and flatbuffer length (module-level len and the serializer rebound); every path of the 16-way padding loops is explored and z3 (linear integer arithmetic) decides for all lengths that every external buffer's offset is 16-byte aligned, in bounds, beyond the flatbuffer, disjoint from the others and selects exactly that buffer's bytes, that data-less and empty buffers are serialised as in the ordinary path, and that no offset/size scalar changes default-ness between the two passes (the condition under which the FlatBuffers builder produces equal lengths). The same obligations are decided for the SECOND quantize() of a used Quantizer (first call real and concrete through the large path, recipe reloaded, second call's serialisation on symbolic buffers inside the ModelModifier the Quantizer really uses). The builder assumption itself is validated with the real builder by pushing synthetic and fixture models through the real public path with the threshold hook and diffing large vs ordinary form.",
    "Assumes: final serialisation length == dummy length when no scalar changes default-ness (validated concretely, not proved: FlatBuffers builder is C-like library code outside the encoding); <=2 buffers quick / <=3 thorough (any subset without data), arbitrary lengths. Interpreter loading both forms is FFI and outside the claim. Uses hook commit 5d5c148 (AI_EDGE_QUANTIZER_VERIF=1 + AI_EDGE_QUANTIZER_VERIF_LARGE_MODEL_THRESHOLD) for the concrete part and replays.",
    "path-exhaustive symbolic execution with symbolic lengths (SymInt) + z3 QF_LIA; differential run of the real serializer via the threshold hook",
    'DESIGN.md 3/C16')

add('C01', 'model_checking',
    "On every skeleton x recipe the real pipeline runs on SYMBOLIC calibration statistics; the executor explores every feasible pattern of parameter (dis)equalities between neighbouring tensors (these decide DQ/Q elimination vs requantize vs grouping), and on each path an independent TFLite-schema oracle decides well-formedness of the rewritten model (indices in range, unique names, one producer, topological order, graph I/O and signature entries exist). A failing path is concretised to float32 statistics and replayed through Quantizer.quantize().",
    'Assumes: bounded skeleton family (31 single-op kinds + 23 topologies: chains, diamond, multi-consumer tensors, intermediate tensors exported as outputs, producer at index 0, repeated operands, concatenation of a shared tensor, unsupported op between supported ones, shared constants/buffers, two signatures) x recipe family; statistics symbolic; FlatBuffers builder intercepted (captured ModelT is inspected; replays go through the real bytes); LiteRT allocate/invoke is FFI and outside the claim.', 'symbolic execution of the real ParamsGenerator/instruction generator/performer on symbolic statistics (UF back end, z3 QF_UFBV decides path feasibility), bit-precise concretisation (QF_FP) of counterexamples, replay through Quantizer.quantize()', 'DESIGN.md 3/C01')
add('C02', 'model_checking',
    "Same exploration; oracle = isomorphism of the rewritten graph with the input graph after deleting inserted QUANTIZE/DEQUANTIZE ops (operators, options, operand wiring to the same original tensor, names, shapes), subgraph I/O count/order/shape, signature keys/arg names, signature tensor == subgraph I/O entry, model I/O float32 unless the recipe covers INPUT/OUTPUT (resolved by the real RecipeManager).",
    'Assumes: bounded skeleton family (31 single-op kinds + 23 topologies: chains, diamond, multi-consumer tensors, intermediate tensors exported as outputs, producer at index 0, repeated operands, concatenation of a shared tensor, unsupported op between supported ones, shared constants/buffers, two signatures) x recipe family; statistics symbolic; FlatBuffers builder intercepted (captured ModelT is inspected; replays go through the real bytes); LiteRT allocate/invoke is FFI and outside the claim.', 'symbolic execution of the real ParamsGenerator/instruction generator/performer on symbolic statistics (UF back end, z3 QF_UFBV decides path feasibility), bit-precise concretisation (QF_FP) of counterexamples, replay through Quantizer.quantize()', 'DESIGN.md 3/C02')
add('C03', 'model_checking',
    "Same exploration; oracle = per operand of every original operator, the dtype/producer demanded by the mode its rule resolves to (resolution by the real RecipeManager, expectation table written from the property text: NOQ untouched + byte-identical constants, WO/FP16 through DEQUANTIZE of an int/fp16 constant, DRQ integer constant weight + float bias, SRQ integer activations of the configured width + int32/int64 bias, non-float operands untouched, inserted Q/DQ convert between their neighbours' dtypes).",
    'Assumes: bounded skeleton family (31 single-op kinds + 23 topologies: chains, diamond, multi-consumer tensors, intermediate tensors exported as outputs, producer at index 0, repeated operands, concatenation of a shared tensor, unsupported op between supported ones, shared constants/buffers, two signatures) x recipe family; statistics symbolic; FlatBuffers builder intercepted (captured ModelT is inspected; replays go through the real bytes); LiteRT allocate/invoke is FFI and outside the claim.', 'symbolic execution of the real ParamsGenerator/instruction generator/performer on symbolic statistics (UF back end, z3 QF_UFBV decides path feasibility), bit-precise concretisation (QF_FP) of counterexamples, replay through Quantizer.quantize()', 'DESIGN.md 3/C03')
add('C08', 'model_checking',
    "Same exploration restricted to the 5 shipped JSON recipes (loaded unchanged) and recipe.dynamic_wi8_afp32(); obligation on every feasible path: no exception escapes parameter generation + graph rewrite. The data-dependent forks (equal vs different parameters between a tensor and its CONCATENATION / fixed-range neighbour) are exactly what one calibration run cannot cover.",
    'Assumes: bounded skeleton family (31 single-op kinds + 23 topologies: chains, diamond, multi-consumer tensors, intermediate tensors exported as outputs, producer at index 0, repeated operands, concatenation of a shared tensor, unsupported op between supported ones, shared constants/buffers, two signatures) x recipe family; statistics symbolic; FlatBuffers builder intercepted (captured ModelT is inspected; replays go through the real bytes); LiteRT allocate/invoke is FFI and outside the claim.' + " calibrate() itself is not run here (statistics are assumed arbitrary; C09/C10 cover calibration).", 'symbolic execution of the real ParamsGenerator/instruction generator/performer on symbolic statistics (UF back end, z3 QF_UFBV decides path feasibility), bit-precise concretisation (QF_FP) of counterexamples, replay through Quantizer.quantize()', 'DESIGN.md 3/C08')

add('C15', 'model_checking',
    "Pipeline exploration on skeletons with tied constants (one constant tensor with 2-3 consumers, two/three tensors on one buffer within a subgraph and across subgraphs) x EVERY assignment of {no-quant, weight-only 8/4 bit, dynamic-range, static-range, float16} to the sharers, activation statistics symbolic; if no exception escapes, an independent byte-level decoder checks for every constant that buffer length matches tensor dtype/shape, that decoding the stored bytes with the tensor's own parameters reproduces the ORIGINAL constant within one step (i.e. quantized once, not re-quantized or reinterpreted), that all tensors on one buffer agree on dtype/parameters, and (C03 oracle) that float consumers read float tensors and integer consumers integer tensors.",
    "Assumes: constants concrete here (symbolic constant contents are C05); bounded sharer patterns above; FlatBuffers builder intercepted; interpreter behaviour FFI.",
    "symbolic execution of the real pipeline over symbolic statistics (UF, z3) for every mode assignment; independent decoder as byte-level oracle; replay through Quantizer.quantize()",
    'DESIGN.md 3/C15')
add('C19', 'model_checking',
    "On ONE engine path the real pipeline runs on a 2-subgraph (thorough: 3) model and on the single-subgraph models made of its subgraphs with the SAME symbolic statistics; structure (operators, wiring, dtypes, names, I/O, quantized dimension) is compared concretely per path and z3 decides equality of the symbolic scale/zero-point terms and constant contents; a multi-subgraph model may be rejected only if a subgraph alone is, or for a sharer conflict (C15). Pairs: independent, sharing a constant buffer, equal structure with different names, insertion-heavy in both (op-id bookkeeping cross-talk), swapped order.",
    "Assumes: pair family above x shipped + selective recipes; shared tables (buffers, opcodes) compared modulo renumbering; FlatBuffers builder intercepted.",
    "relational symbolic execution (three runs of the real pipeline per path on shared symbolic statistics), z3 term equality",
    'DESIGN.md 3/C19')

add('C04', 'model_checking',
    "The real ParamsGenerator (real recipe resolution, every real materialize_* function, bias and same-scale logic) runs bit-precisely on SYMBOLIC statistics and SYMBOLIC constant contents for every config the real policy accepts per op kind (280 op x config cases) plus two/three-op propagation graphs; every emitted UniformQuantParams is compared as a z3 term with an independent derivation from the TFLite spec (min/max formulas on the tensor's effective statistics incl. several-hop same-scale propagation and fixed-range outputs, bias = input scale x weight scale per channel with zero point 0 and 32/64 bits, per-channel only on the weight operand and on the dimension the kernels expect). Agreement for ALL float32 statistics/constants is decided by the solver; a disagreement yields concrete float32 inputs, replayed on the real code with real NumPy.",
    "Assumes: tensors <= 8 elements / <= 3 channels; float32 finite statistics; range facts of the formulas (positive finite scale, zero point in range, casts in range) are C17; that calibration delivers the true statistics is FFI (C09 covers the Python side). A random-value pre-check is used only to find counterexamples faster; 'holds' is always the solver's unsat.",
    "bit-precise symbolic execution of the real ParamsGenerator (z3 QF_FP/QF_BV term equality against a spec-derived reference), concrete replay",
    'DESIGN.md 3/C04')

add('C05', 'model_checking',
    "Bit-precise symbolic run of the real pipeline (parameter generation -> instruction generation -> performer -> quantize_tensor/_pack_data) on SYMBOLIC constant contents for 11-15 weight shapes (odd element counts, ranks 1-4, every quantized dimension of the op table) x weight-only/dynamic-range 8/4 bit sym/asym per-channel/per-tensor, float16 and static-range (weights, biases, activation-config constants). For every rewritten constant z3 decides: buffer length == what shape/dtype imply; the harness's own decoder of the stored byte TERMS (low nibble first, sign extension, little endian) yields for each element the reference integer clip(rint(x*(1/s_c)+z_c)) with the parameters of the element's OWN channel; float16 bytes are the RNE binary16 of the original; plus the pure bit-vector lemma decode(pack(b))==b through the real _pack_data for ALL int4 vectors of length 1..9 (odd tails padded with 0).",
    "Assumes: shapes <= 6 elements; int4 integers lie in their range (C17 quantize.in_range) - used as a fact in the bit-vector step; the real-valued error bound (half/one step) follows from C17's round-trip lemma with C04 (parameters are those of the element's own channel) - composition on paper, checked concretely by C15's decoder oracle; FlatBuffers builder intercepted.",
    "bit-precise symbolic execution (z3 QF_FP/QF_BV term equality + abstraction to a pure QF_BV lemma), independent decoder on byte terms, concrete replay through Quantizer.quantize()",
    'DESIGN.md 3/C05')

add('C09', 'model_checking',
    "The real Quantizer.calibrate / Calibrator / min_max_calibrate / moving_average_update / init_qsvs run with the interpreter replaced by a fake (validated against the real one) whose runtime tensors are FRESH SYMBOLIC arrays per (sample, tensor). For datasets of 1..3 samples and every split point, each recorded min/max is compared as a term with the reference fold from the property text (first sample initialises, ema 0.95/0.05 in dataset order, each tensor once per sample), constants with their true per-tensor/per-channel min/max, resume(D1 then D2) with the single pass over D1+D2, and the previous result is shown untouched (identity and terms). Histories on ONE Quantizer object: a fresh calibration after a calibration on other samples is exact, a resumed session on the same object equals the single pass, results handed out earlier are not rewritten.",
    "Assumes: what LiteRT computes is outside the claim (fresh arbitrary tensors); float ops uninterpreted (add/mul commutative); n<=3 (thorough 4); skeleton subset of 12 (thorough: all).",
    "symbolic execution of the real calibration code over symbolic per-sample tensors (UF terms, z3), fake interpreter as nondeterministic environment stub, replay on the real interpreter",
    'DESIGN.md 3/C09')

add('C14', 'model_checking',
    "Short API call histories (quantize A then load/quantize B on one Quantizer; two Quantizers sharing one calibration-result object; repeated quantize; calibrate with a previous result; get_quantization_recipe in between) run through the real Quantizer with SYMBOLIC statistics; after every call the caller-owned arguments (calibration result, previous result, dataset, recipe list, model bytes) are compared with a snapshot (identity and terms), and the model rewritten by the last quantize() is compared with the one a fresh Quantizer produces from equal arguments - structure concretely, every scale/zero-point/constant as a term whose equality z3 decides (i.e. whether ANY statistics make the two differ). Process-wide state: references are computed after the repo's module-level containers, class/singleton containers and functools caches are put back to their import-time content (model of a fresh process); scenarios S6/S7 quantize or calibrate ANOTHER checkpoint of the same architecture (equal tensor names, shapes, buffer indices, other weights) first. Byte level, concretely: the same histories through the real serializer on the ordinary and the large-model path, and the other-model history in two really fresh interpreter processes.",
    "Assumes: the seven scenarios x 6 recipe pairs x 8 skeletons (thorough: more skeletons); float ops uninterpreted (sound for equality of terms built by the same code); the fresh-process model does not see state in closures, C extensions or containers nested deeper than one level in a singleton; PYTHONHASHSEED independence is outside the symbolic claim (a concrete two-process sha256 comparison is reported in the thorough tier); validate() purity is checked in C18's harness.",
    "relational symbolic execution of API call histories on shared symbolic statistics (UF terms, z3), snapshot comparison of caller-owned objects, byte-level replay through the public API",
    'DESIGN.md 3/C14')

add('C18', 'model_checking',
    "The real compare_model / ComparisonResult.add_new_signature_results / tfl_interpreter_utils / validation_utils run with two fake interpreters (reference = skeleton, target = its really quantized version or itself) whose runtime tensors are fresh SYMBOLIC arrays per (model, sample, tensor). For every tensor name present in both main subgraphs: exactly one entry, in the right one of the four groups, whose value term-equals mean_k metric(dequantize(target_k), reference_k) with an independent spec dequantization of the right partner tensor (quantized int8 inputs included); test data untouched; no exception from the partition (tensor that is both input and output). Metric laws decided bit-precisely for float32 arrays of 1..3 elements: mse(x,x)=0, mse>=0 and not NaN, mse symmetric (lemma chain: fl(a-b) = -fl(b-a) or both NaN/zero; equal squares), median_diff_ratio(x,x)=0 and >=0.",
    "Assumes: interpreters' tensors arbitrary (FFI not modelled; contract of the fake validated against the real interpreter); module-level float() rebound to keep symbolic scalars; wiring obligations under uninterpreted float ops; 8 skeletons (16 thorough) x {a8w8, weight-only, self} x both metrics x 1-2 samples.",
    "symbolic execution of the real validator over symbolic tensor contents (UF terms, z3) + bit-precise (QF_FP) lemma chains for the metric laws; replay on the real interpreters via compare_model",
    'DESIGN.md 3/C18')

add('C12', 'model_checking',
    "Recipes reachable by update calls from an empty manager run through the real add_quantization_config (REAL support check and policy) -> get_quantization_recipe -> JSON round trip -> load into a fresh manager -> get_quantization_recipe / get_quantization_configs / need_calibration: single updates with fully SYMBOLIC config fields (num_bits, block_size unbounded integers; symmetric, explicit_dequantize, skip_checks booleans; enums, presence of activation/weight config forked), pairs of updates (rule interactions) with configs from a concrete set. On every path z3 decides that the reloaded recipe equals the saved one, resolves 3 operator types x 2 scopes identically and keeps need_calibration. Concretely: every file under recipes/ loads, the defaults re-export to themselves, and the JSON model J agrees with the json module.",
    "Assumes: JSON round trip modelled by J (validated against json); histories <= 2 updates (3 thorough); regex/op alphabets of 2/4; byte-identical quantize() output from equal recipes is C14; serializer not encoded.",
    "path-exhaustive symbolic execution of the real recipe export/import code on symbolic config fields (z3 LIA/Bool), concrete replay with the json module",
    'DESIGN.md 3/C12')

add('C13', 'model_checking',
    "For every operator selector (all 25) x algorithm, a config with SYMBOLIC scalar fields (num_bits and block_size unbounded integers, symmetric / explicit_dequantize booleans, enum fields and presence of the activation/weight config forked, skip_checks off) goes through the real update and resolve code with the REAL support checks and default policy: z3 decides on every path that a specific-op update either accepts or raises ValueError (nothing else), that the '*' update never raises and is applied at resolution time iff the specific update accepts (else default no-quantize), and that every accepted config lies inside the finite lattice (no 5-bit width, stray block size, negative width is ever accepted). Every accepted pair of that lattice (found by exhaustive enumeration with the real check) is then pushed through the whole real pipeline on its op's skeleton with symbolic statistics: no exception, C01 well-formedness, the interpreter builder's parameter checks (as many zero points as scales; several scales need a quantized dimension inside the rank whose extent equals their number) and C03 mode oracles hold. Configs reach the pipeline in their JSON (string-valued) form, as every recipe file does.",
    "Assumes: runtime soundness (interpreter prepares, outputs track the float model) is FFI (C06/C07 not applicable); skeleton per op kind (quick: first variant, thorough: all variants); float-casting ignores symmetric/granularity/block_size/explicit_dequantize of the weight config (projected away, an unusual variant is materialised); README table is reported as documentation drift only.",
    "path-exhaustive symbolic execution of the real acceptance code on symbolic config fields (z3 LIA/Bool) + pipeline exploration (UF) for every accepted pair; concrete replay",
    'DESIGN.md 3/C13')

def write():
  m = {
   'version': 1,
   'setup_cmd': './setup.sh',
   'hooks': {'guard': 'AI_EDGE_QUANTIZER_VERIF',
             'enable': 'checks import /repo from its working tree on every run and rebind module globals in-process (symx/patch.py); the single source hook (large-model threshold, C16) is enabled by the check itself setting AI_EDGE_QUANTIZER_VERIF=1 and AI_EDGE_QUANTIZER_VERIF_LARGE_MODEL_THRESHOLD in its own process',
             'baseline_off_cmd': BASE_OFF, 'source_commits': ['5d5c148'], 'add_only': True},
   'engines': [{'name': 'symx', 'path': '/verif/symx', 'serves_properties': sorted(CHECKS),
                'kind_free_text': 'own dynamic symbolic executor on z3 (DFS over branch decisions with re-execution) + symbolic NumPy shim with BITS/UF/RERR element back ends; runs the unmodified /repo functions'}],
   'checks': [CHECKS[k] for k in sorted(CHECKS)],
   'not_applicable': [{'property_id': k, 'reason': v} for k, v in sorted(NA.items())],
   'notes': 'exit codes: 0 all obligations discharged (known findings printed as KNOWN-FINDING), 1 replayed violation, 2 inconclusive (unknown/unsupported/non-reproducing counterexample). Properties not yet listed under checks or not_applicable are still being built.',
  }
  with open(os.path.join(os.path.dirname(__file__), 'MANIFEST.json'), 'w') as f:
    json.dump(m, f, indent=1)

if __name__ == '__main__':
  write()
