"""Programmatic builder of small float TFLite models in converter normal form.

One private empty buffer per activation tensor, buffer 0 reserved/empty, unique
tensor names, signature defs.  Shapes are inferred so that the real LiteRT
interpreter can allocate the models (used for replays/demonstrations only).
"""
from __future__ import annotations

import numpy as np
from ai_edge_litert import schema_py_generated as S
from tensorflow.lite.tools import flatbuffer_utils

BO = S.BuiltinOperator
TT = S.TensorType
_NP2TT = {np.dtype('float32'): TT.FLOAT32, np.dtype('int32'): TT.INT32,
          np.dtype('int64'): TT.INT64, np.dtype('int8'): TT.INT8}


class Sub:

  def __init__(self, mb, name):
    self.mb = mb
    self.sg = S.SubGraphT()
    self.sg.name = name
    self.sg.tensors = []
    self.sg.operators = []
    self.sg.inputs = []
    self.sg.outputs = []
    self.shapes = {}
    self.names = {}

  # -- tensors
  def act(self, name, shape, dtype=np.float32):
    return self._tensor(name, shape, dtype, self.mb.new_buffer(None))

  def const(self, name, data, buffer=None):
    data = np.asarray(data)
    if buffer is None:
      buffer = self.mb.new_buffer(data)
    return self._tensor(name, data.shape, data.dtype, buffer)

  def _tensor(self, name, shape, dtype, buffer):
    assert name not in self.mb.all_names, f'duplicate tensor name {name}'
    self.mb.all_names.add(name)
    t = S.TensorT()
    t.name = name.encode()
    t.shape = [int(x) for x in shape]
    t.type = _NP2TT[np.dtype(dtype)]
    t.buffer = buffer
    t.quantization = None
    self.sg.tensors.append(t)
    idx = len(self.sg.tensors) - 1
    self.shapes[idx] = tuple(int(x) for x in shape)
    self.names[idx] = name
    return idx

  def input(self, name, shape, dtype=np.float32):
    i = self.act(name, shape, dtype)
    self.sg.inputs.append(i)
    return i

  def output(self, idx):
    self.sg.outputs.append(idx)
    return idx

  # -- operators
  def _op(self, code, inputs, outputs, opt_type=0, opt=None):
    op = S.OperatorT()
    op.opcodeIndex = self.mb.opcode(code)
    op.inputs = [int(x) for x in inputs]
    op.outputs = [int(x) for x in outputs]
    op.builtinOptionsType = opt_type
    op.builtinOptions = opt
    self.sg.operators.append(op)
    return len(self.sg.operators) - 1

  def _w(self, name, shape, seed):
    rng = np.random.default_rng(abs(hash((name, seed))) % (2 ** 31))
    return (rng.standard_normal(shape) * 0.7).astype(np.float32)

  def fc(self, x, out_name, units=2, bias=True, w=None, w_idx=None, fused=0):
    nin = self.shapes[x][-1]
    if w_idx is None:
      w_idx = self.const(out_name + '_w',
                         w if w is not None else self._w(out_name, (units, nin), 1))
    units = self.shapes[w_idx][0]
    b_idx = -1
    if bias:
      b_idx = self.const(out_name + '_b', self._w(out_name, (units,), 2))
    y = self.act(out_name, self.shapes[x][:-1] + (units,))
    o = S.FullyConnectedOptionsT()
    o.fusedActivationFunction = fused
    o.keepNumDims = len(self.shapes[x]) > 2
    self._op(BO.FULLY_CONNECTED, [x, w_idx, b_idx], [y],
             S.BuiltinOptions.FullyConnectedOptions, o)
    return y

  def conv2d(self, x, out_name, filters=2, bias=True):
    cin = self.shapes[x][-1]
    w = self.const(out_name + '_w', self._w(out_name, (filters, 1, 1, cin), 1))
    b = self.const(out_name + '_b', self._w(out_name, (filters,), 2)) if bias else -1
    y = self.act(out_name, self.shapes[x][:-1] + (filters,))
    o = S.Conv2DOptionsT()
    o.strideH = o.strideW = 1
    o.dilationHFactor = o.dilationWFactor = 1
    self._op(BO.CONV_2D, [x, w, b], [y], S.BuiltinOptions.Conv2DOptions, o)
    return y

  def dwconv2d(self, x, out_name, bias=True):
    c = self.shapes[x][-1]
    w = self.const(out_name + '_w', self._w(out_name, (1, 1, 1, c), 1))
    b = self.const(out_name + '_b', self._w(out_name, (c,), 2)) if bias else -1
    y = self.act(out_name, self.shapes[x])
    o = S.DepthwiseConv2DOptionsT()
    o.strideH = o.strideW = 1
    o.dilationHFactor = o.dilationWFactor = 1
    o.depthMultiplier = 1
    self._op(BO.DEPTHWISE_CONV_2D, [x, w, b], [y],
             S.BuiltinOptions.DepthwiseConv2DOptions, o)
    return y

  def transpose_conv(self, x, out_name, filters=2, bias=True):
    n, h, w_, cin = self.shapes[x]
    oshape = self.const(out_name + '_oshape',
                        np.array([n, h, w_, filters], np.int32))
    w = self.const(out_name + '_w', self._w(out_name, (filters, 1, 1, cin), 1))
    ins = [oshape, w, x]
    if bias == 'empty':  # the slot is there, the operand is not (-1)
      ins.append(-1)
    elif bias:
      ins.append(self.const(out_name + '_b', self._w(out_name, (filters,), 2)))
    y = self.act(out_name, (n, h, w_, filters))
    o = S.TransposeConvOptionsT()
    o.strideH = o.strideW = 1
    self._op(BO.TRANSPOSE_CONV, ins, [y],
             S.BuiltinOptions.TransposeConvOptions, o)
    return y

  def rnn(self, x, out_name, units=2):
    """Builtin RNN: h' = relu(W x + R h + b); the hidden state is a variable
    tensor the kernel writes back (state survives between invocations)."""
    nin = self.shapes[x][-1]
    w = self.const(out_name + '_w', self._w(out_name, (units, nin), 1))
    r = self.const(out_name + '_r', self._w(out_name, (units, units), 2) * 0.5)
    b = self.const(out_name + '_b', self._w(out_name, (units,), 3))
    h = self.act(out_name + '_state', (self.shapes[x][0], units))
    self.sg.tensors[h].isVariable = True
    y = self.act(out_name, (self.shapes[x][0], units))
    o = S.RNNOptionsT()
    o.fusedActivationFunction = 1
    self._op(BO.RNN, [x, w, r, b, h], [y], S.BuiltinOptions.RNNOptions, o)
    return y

  def bmm(self, x, y_in, out_name, adj_y=False, const_rhs_shape=None):
    if const_rhs_shape is not None:
      y_in = self.const(out_name + '_rhs', self._w(out_name, const_rhs_shape, 3))
    a, b = self.shapes[x], self.shapes[y_in]
    n = b[-2] if adj_y else b[-1]
    out = self.act(out_name, a[:-1] + (n,))
    o = S.BatchMatMulOptionsT()
    o.adjX = False
    o.adjY = bool(adj_y)
    self._op(BO.BATCH_MATMUL, [x, y_in], [out],
             S.BuiltinOptions.BatchMatMulOptions, o)
    return out

  def embedding(self, ids, out_name, vocab=4, dim=2):
    table = self.const(out_name + '_table', self._w(out_name, (vocab, dim), 1))
    y = self.act(out_name, self.shapes[ids] + (dim,))
    self._op(BO.EMBEDDING_LOOKUP, [ids, table], [y])
    return y

  def binary(self, kind, a, b, out_name, fused=0):
    code = {'ADD': BO.ADD, 'SUB': BO.SUB, 'MUL': BO.MUL}[kind]
    ot = {'ADD': (S.BuiltinOptions.AddOptions, S.AddOptionsT),
          'SUB': (S.BuiltinOptions.SubOptions, S.SubOptionsT),
          'MUL': (S.BuiltinOptions.MulOptions, S.MulOptionsT)}[kind]
    y = self.act(out_name, np.broadcast_shapes(self.shapes[a], self.shapes[b]))
    opt = ot[1]()
    opt.fusedActivationFunction = fused
    self._op(code, [a, b], [y], ot[0], opt)
    return y

  def unary(self, kind, x, out_name):
    code = {'TANH': BO.TANH, 'LOGISTIC': BO.LOGISTIC, 'GELU': BO.GELU,
            'RSQRT': BO.RSQRT, 'RELU': BO.RELU, 'SOFTMAX': BO.SOFTMAX,
            'ABS': BO.ABS, 'NEG': BO.NEG}[kind]
    y = self.act(out_name, self.shapes[x])
    if kind == 'SOFTMAX':
      o = S.SoftmaxOptionsT()
      o.beta = 1.0
      self._op(code, [x], [y], S.BuiltinOptions.SoftmaxOptions, o)
    elif kind == 'GELU':
      self._op(code, [x], [y], S.BuiltinOptions.GeluOptions, S.GeluOptionsT())
    else:
      self._op(code, [x], [y])
    return y

  def reshape(self, x, out_name, new_shape):
    s = self.const(out_name + '_shape', np.array(new_shape, np.int32))
    y = self.act(out_name, new_shape)
    o = S.ReshapeOptionsT()
    o.newShape = [int(v) for v in new_shape]
    self._op(BO.RESHAPE, [x, s], [y], S.BuiltinOptions.ReshapeOptions, o)
    return y

  def transpose(self, x, out_name, perm=None):
    r = len(self.shapes[x])
    perm = list(perm) if perm is not None else list(range(r))[::-1]
    p = self.const(out_name + '_perm', np.array(perm, np.int32))
    y = self.act(out_name, tuple(self.shapes[x][i] for i in perm))
    self._op(BO.TRANSPOSE, [x, p], [y], S.BuiltinOptions.TransposeOptions,
             S.TransposeOptionsT())
    return y

  def mean(self, x, out_name, axis=0):
    a = self.const(out_name + '_axis', np.array([axis], np.int32))
    shp = list(self.shapes[x])
    shp[axis] = 1
    y = self.act(out_name, shp)
    o = S.ReducerOptionsT()
    o.keepDims = True
    self._op(BO.MEAN, [x, a], [y], S.BuiltinOptions.ReducerOptions, o)
    return y

  def strided_slice(self, x, out_name):
    r = len(self.shapes[x])
    b = self.const(out_name + '_begin', np.zeros(r, np.int32))
    e = self.const(out_name + '_end', np.array(self.shapes[x], np.int32))
    s = self.const(out_name + '_strides', np.ones(r, np.int32))
    y = self.act(out_name, self.shapes[x])
    self._op(BO.STRIDED_SLICE, [x, b, e, s], [y],
             S.BuiltinOptions.StridedSliceOptions, S.StridedSliceOptionsT())
    return y

  def avgpool(self, x, out_name, fused=0):
    y = self.act(out_name, self.shapes[x])
    o = S.Pool2DOptionsT()
    o.fusedActivationFunction = fused
    o.strideH = o.strideW = 1
    o.filterHeight = o.filterWidth = 1
    self._op(BO.AVERAGE_POOL_2D, [x], [y], S.BuiltinOptions.Pool2DOptions, o)
    return y

  def concat(self, xs, out_name, axis=-1):
    shp = list(self.shapes[xs[0]])
    ax = axis % len(shp)
    shp[ax] = sum(self.shapes[i][ax] for i in xs)
    y = self.act(out_name, shp)
    o = S.ConcatenationOptionsT()
    o.axis = ax
    self._op(BO.CONCATENATION, list(xs), [y],
             S.BuiltinOptions.ConcatenationOptions, o)
    return y

  def split(self, x, out_names, axis=-1):
    shp = list(self.shapes[x])
    ax = axis % len(shp)
    a = self.const(out_names[0] + '_axis', np.array(ax, np.int32))
    shp[ax] //= len(out_names)
    ys = [self.act(n, shp) for n in out_names]
    o = S.SplitOptionsT()
    o.numSplits = len(out_names)
    self._op(BO.SPLIT, [a, x], ys, S.BuiltinOptions.SplitOptions, o)
    return ys

  def cast_to_int(self, x, out_name):
    y = self.act(out_name, self.shapes[x], np.int32)
    o = S.CastOptionsT()
    o.inDataType = TT.FLOAT32
    o.outDataType = TT.INT32
    self._op(BO.CAST, [x], [y], S.BuiltinOptions.CastOptions, o)
    return y


class ModelBuilder:

  def __init__(self):
    self.model = S.ModelT()
    self.model.version = 3
    self.model.description = 'symx skeleton'
    self.model.buffers = []
    self.model.operatorCodes = []
    self.model.subgraphs = []
    self.model.signatureDefs = []
    self.all_names = set()
    self.subs = []
    self.new_buffer(None)  # buffer 0: reserved empty

  def new_buffer(self, data):
    b = S.BufferT()
    if data is None:
      b.data = None
    elif isinstance(data, (bytes, bytearray)):
      b.data = np.frombuffer(bytes(data), dtype=np.uint8)
    else:
      b.data = np.frombuffer(np.ascontiguousarray(data).tobytes(), dtype=np.uint8)
    b.offset = 0
    b.size = 0
    self.model.buffers.append(b)
    return len(self.model.buffers) - 1

  def opcode(self, code):
    for i, oc in enumerate(self.model.operatorCodes):
      if oc.builtinCode == code:
        return i
    oc = S.OperatorCodeT()
    oc.builtinCode = code
    oc.deprecatedBuiltinCode = min(int(code), 127)
    oc.version = 1
    self.model.operatorCodes.append(oc)
    return len(self.model.operatorCodes) - 1

  def subgraph(self, name='main'):
    s = Sub(self, name)
    self.subs.append(s)
    self.model.subgraphs.append(s.sg)
    return s

  def signature(self, key, sub, in_names=None, out_names=None):
    sd = S.SignatureDefT()
    sd.signatureKey = key
    sd.subgraphIndex = self.subs.index(sub)
    sd.inputs, sd.outputs = [], []
    for k, idx in enumerate(sub.sg.inputs):
      tm = S.TensorMapT()
      tm.name = (in_names[k] if in_names else f'in{k}')
      tm.tensorIndex = idx
      sd.inputs.append(tm)
    for k, idx in enumerate(sub.sg.outputs):
      tm = S.TensorMapT()
      tm.name = (out_names[k] if out_names else f'out{k}')
      tm.tensorIndex = idx
      sd.outputs.append(tm)
    self.model.signatureDefs.append(sd)

  def build(self):
    if not self.model.signatureDefs:
      for i, s in enumerate(self.subs):
        self.signature('serving_default' if i == 0 else f'sig{i}', s)
    return bytes(flatbuffer_utils.convert_object_to_bytearray(self.model))


def const_buffers_model(lengths, raw=False):
  """y_i = ADD(x, c_i) for constants c_i with the given buffer byte lengths.

  lengths: list of int (bytes; rounded up to a multiple of 4 unless raw; 0
  gives a present-but-empty buffer, fed to a RELU), None (no data: an extra
  graph input instead of a constant) or 'U<k>' (a buffer of k bytes that no
  tensor refers to).
  """
  mb = ModelBuilder()
  sg = mb.subgraph()
  x = sg.input('x', (1, 1))
  for i, n in enumerate(lengths):
    if isinstance(n, tuple) and n[0] == 'same':
      # same content as every other ('same', k) entry of that length
      k = int(n[1])
      if raw and k % 4:
        c = sg.const(f'c_{i}', (np.arange(k) % 100).astype(np.int8))
        y = sg.act(f'y_{i}', (k,))
        o = S.CastOptionsT()
        o.inDataType = TT.INT8
        o.outDataType = TT.FLOAT32
        sg._op(BO.CAST, [c], [y], S.BuiltinOptions.CastOptions, o)
        sg.output(y)
      else:
        kk = max(1, k // 4)
        other = sg.const(f'c_{i}', np.arange(kk, dtype=np.float32).reshape(
            kk, 1))
        sg.output(sg.binary('ADD', x, other, f'y_{i}'))
      continue
    if isinstance(n, str):
      # 'U<k>': a left-over buffer of k bytes that no tensor refers to
      mb.new_buffer(bytes((j * 7 + i) % 251 for j in range(int(n[1:]))))
      continue
    if n is None:
      other = sg.input(f'in_{i}', (1, 1))
      sg.output(sg.binary('ADD', x, other, f'y_{i}'))
      continue
    if raw and int(n) % 4:
      # an int8 constant of exactly n bytes, read by a CAST (an op the
      # quantizer does not know and leaves alone)
      c = sg.const(f'c_{i}', (np.arange(int(n)) % 100 + i).astype(np.int8))
      y = sg.act(f'y_{i}', (int(n),))
      o = S.CastOptionsT()
      o.inDataType = TT.INT8
      o.outDataType = TT.FLOAT32
      sg._op(BO.CAST, [c], [y], S.BuiltinOptions.CastOptions, o)
      sg.output(y)
      continue
    k = int(n) // 4 if raw else (int(n) + 3) // 4
    if k == 0:
      buf = mb.new_buffer(b'')
      mb.model.buffers[buf].data = np.zeros((0,), np.uint8)
      other = sg._tensor(f'c_{i}', (0,), np.float32, buf)
      y = sg.act(f'y_{i}', (0,))
      sg._op(BO.RELU, [other], [y])
      sg.output(y)
      continue
    other = sg.const(f'c_{i}', (np.arange(k, dtype=np.float32) + i).reshape(k, 1))
    sg.output(sg.binary('ADD', x, other, f'y_{i}'))
  if not sg.sg.outputs:
    sg.output(sg.unary('RELU', x, 'y'))
  return mb.build()
