"""Reference formulas of the TFLite quantization spec as z3 (bit-precise) terms.

Written from https://www.tensorflow.org/lite/performance/quantization_spec and
the property texts; independent of the repo (same operation order as the
specified formulas so that agreement is, in the good case, a structural
identity the solver decides instantly)."""
import numpy as np
import z3

F32 = z3.Float32()
RNE = z3.RNE()


def fp(v):
  bits = int(np.array(v, dtype=np.float32).view(np.uint32))
  return z3.fpBVToFP(z3.BitVecVal(bits, 32), F32)


def fmax(a, b):
  return z3.If(z3.Or(z3.fpGEQ(a, b), z3.fpIsNaN(a)), a, b)


def fmin(a, b):
  return z3.If(z3.Or(z3.fpLEQ(a, b), z3.fpIsNaN(a)), a, b)


def qrange(bits):
  return -(2 ** (bits - 1)), 2 ** (bits - 1) - 1


def zp_scale(mn, mx, bits, symmetric, with_float_zp=False):
  """(zero point as 32-bit signed BV, scale as float32 term[, float zp])."""
  qmin, qmax = qrange(bits)
  min_bound = fp(1e-4)
  if symmetric:
    bound = fmax(fmax(z3.fpAbs(mn), z3.fpAbs(mx)), min_bound)
    scale = z3.fpDiv(RNE, bound, fp(float(qmax)))
    if with_float_zp:
      return z3.BitVecVal(0, 32), scale, None
    return z3.BitVecVal(0, 32), scale
  zero = fp(0.0)
  bmax = fmax(mx, zero)
  bmin = fmin(mn, zero)
  bound = fmax(z3.fpSub(RNE, bmax, bmin), min_bound)
  scale = z3.fpDiv(RNE, bound, fp(float(qmax - qmin)))
  zpf = z3.fpRoundToIntegral(
      RNE, z3.fpSub(RNE, fp(float(qmin)), z3.fpDiv(RNE, bmin, scale)))
  if with_float_zp:
    return z3.fpToSBV(z3.RTZ(), zpf, z3.BitVecSort(32)), scale, zpf
  return z3.fpToSBV(z3.RTZ(), zpf, z3.BitVecSort(32)), scale


def quantize(x, scale, zp32, bits, symmetric, out_bits=None):
  """clip(rint(x * (1/scale) + zp)) as a signed 32-bit BV (64 for out_bits=64)."""
  qmin, qmax = qrange(bits)
  if symmetric:
    qmin += 1
  inv = z3.fpDiv(RNE, fp(1.0), scale)
  y = z3.fpAdd(RNE, z3.fpMul(RNE, x, inv), z3.fpSignedToFP(RNE, zp32, F32))
  r = z3.fpRoundToIntegral(RNE, y)
  c = fmin(fmax(r, fp(float(qmin))), fp(float(qmax)))
  return z3.fpToSBV(z3.RTZ(), c, z3.BitVecSort(32))


def fold_min(xs):
  acc = xs[0]
  for x in xs[1:]:
    acc = fmin(acc, x)
  return acc


def fold_max(xs):
  acc = xs[0]
  for x in xs[1:]:
    acc = fmax(acc, x)
  return acc


# kernel constants of the runtime (activations.cc / tfl_ops.td)
FIXED_OUTPUT = {
    ('SOFTMAX', 8): (1.0 / 256, -128), ('SOFTMAX', 16): (1.0 / 32768, 0),
    ('LOGISTIC', 8): (1.0 / 256, -128), ('LOGISTIC', 16): (1.0 / 32768, 0),
    ('TANH', 8): (1.0 / 128, 0), ('TANH', 16): (1.0 / 32768, 0),
}

# dimension the runtime kernels expect per-channel parameters on
def weight_qdim(op_name, rank, adj_y=False):
  if op_name == 'DEPTHWISE_CONV_2D':
    return 3
  if op_name == 'BATCH_MATMUL':
    return rank - 2 if adj_y else rank - 1
  return 0  # FULLY_CONNECTED, CONV_2D, CONV_2D_TRANSPOSE, EMBEDDING_LOOKUP


SAME_AS_INPUT = ('RESHAPE', 'TRANSPOSE', 'SPLIT', 'STRIDED_SLICE',
                 'AVERAGE_POOL_2D')
SAME_AS_OUTPUT = ('CONCATENATION',)
WEIGHT_OPS = {'FULLY_CONNECTED': (0, 1, 2), 'CONV_2D': (0, 1, 2),
              'DEPTHWISE_CONV_2D': (0, 1, 2), 'CONV_2D_TRANSPOSE': (2, 1, 3),
              'EMBEDDING_LOOKUP': (None, 1, None),
              'BATCH_MATMUL': (0, 1, None)}
