"""Independent structural oracles over flatbuffer object-API models (ModelT).

Written from the TFLite schema and the property texts, not from the repo.
They work both on the ModelT captured from a symbolic run (values may be
symbolic; only structure and types are read here) and on re-parsed output
bytes of a concrete replay.
"""
from __future__ import annotations

from ai_edge_litert import schema_py_generated as S

BO = S.BuiltinOperator
TT = S.TensorType
FLOAT_TYPES = (TT.FLOAT32,)


def tname(t):
  n = t.name
  return n.decode('utf-8') if isinstance(n, (bytes, bytearray)) else str(n)


def has_data(model, t):
  if t.buffer is None or t.buffer < 0 or t.buffer >= len(model.buffers):
    return False
  d = model.buffers[t.buffer].data
  if d is None:
    return False
  try:
    return len(d) > 0
  except TypeError:
    return True


def well_formed(model):
  """C01 structural clauses. Returns list of problem strings."""
  pr = []
  nbuf = len(model.buffers)
  ncodes = len(model.operatorCodes)
  names = set()
  for si, sg in enumerate(model.subgraphs):
    nt = len(sg.tensors)
    for ti, t in enumerate(sg.tensors):
      if t.buffer is None or not 0 <= t.buffer < nbuf:
        pr.append(f'sg{si} tensor {ti}: buffer index {t.buffer} out of range')
      n = tname(t)
      if n in names:
        pr.append(f'sg{si} tensor {ti}: duplicate tensor name {n!r}')
      names.add(n)
    producers = {}
    for i in list(sg.inputs) + list(sg.outputs):
      if not 0 <= i < nt:
        pr.append(f'sg{si}: graph input/output {i} is not a tensor')
    available = set(i for i in sg.inputs if 0 <= i < nt)
    for oi, op in enumerate(sg.operators):
      if not 0 <= op.opcodeIndex < ncodes:
        pr.append(f'sg{si} op {oi}: opcode index {op.opcodeIndex} out of range')
      for i in op.inputs:
        if i == -1:
          continue
        if not 0 <= i < nt:
          pr.append(f'sg{si} op {oi}: input tensor index {i} out of range')
          continue
        if i in available or has_data(model, sg.tensors[i]) or getattr(
            sg.tensors[i], 'isVariable', False):
          continue  # (variable tensors hold state, nobody produces them)
        pr.append(f'sg{si} op {oi}: operand {tname(sg.tensors[i])!r} is '
                  'neither a graph input, a constant, nor produced by an '
                  'earlier operator')
      for o in op.outputs:
        if not 0 <= o < nt:
          pr.append(f'sg{si} op {oi}: output tensor index {o} out of range')
          continue
        if o in producers:
          pr.append(f'sg{si}: tensor {tname(sg.tensors[o])!r} has two '
                    f'producers (ops {producers[o]} and {oi})')
        if o in sg.inputs:
          pr.append(f'sg{si}: graph input {tname(sg.tensors[o])!r} is '
                    f'produced by op {oi}')
        producers[o] = oi
        available.add(o)
    for o in sg.outputs:
      if 0 <= o < nt and o not in available and not has_data(
          model, sg.tensors[o]):
        pr.append(f'sg{si}: graph output {tname(sg.tensors[o])!r} is never '
                  'produced')
  for sd in model.signatureDefs or []:
    if not 0 <= sd.subgraphIndex < len(model.subgraphs):
      pr.append(f'signature {sd.signatureKey}: subgraph index out of range')
      continue
    sg = model.subgraphs[sd.subgraphIndex]
    for tm in list(sd.inputs or []) + list(sd.outputs or []):
      if not 0 <= tm.tensorIndex < len(sg.tensors):
        pr.append(f'signature {sd.signatureKey}: entry {tm.name} refers to '
                  f'tensor {tm.tensorIndex} which does not exist')
  return pr


def dtype_consistent(model):
  """A Python-side proxy for "the interpreter can prepare the model": the
  runtime (non-constant) float-or-quantized operands of an operator are either
  all float32 or all of one quantized integer type (kernels reject mixtures,
  e.g. an int8 FULLY_CONNECTED with a float input); QUANTIZE reads float or
  integer and writes integer, DEQUANTIZE reads integer/float16 and writes
  float."""
  pr = []
  act_types = (TT.FLOAT32, TT.INT8, TT.INT16)
  for si, sg in enumerate(model.subgraphs):
    for oi, op in enumerate(sg.operators):
      code = model.operatorCodes[op.opcodeIndex].builtinCode
      if code in (BO.QUANTIZE, BO.DEQUANTIZE, BO.CAST):
        continue
      kinds = set()
      for i in list(op.inputs) + list(op.outputs):
        if i == -1 or not 0 <= i < len(sg.tensors):
          continue
        t = sg.tensors[i]
        if t.type not in act_types or has_data(model, t):
          continue
        kinds.add(t.type)
      if len(kinds) > 1:
        pr.append(f'sg{si} op {oi}: runtime operands mix dtypes '
                  f'{sorted(int(k) for k in kinds)}')
  return pr


def qparams_prepareable(model):
  """What the LiteRT interpreter builder (ParseQuantization) demands of every
  tensor's quantization parameters before any kernel runs: as many zero points
  as scales, and with more than one scale a quantized dimension inside the
  tensor's rank whose extent equals the number of scales."""
  pr = []
  for si, sg in enumerate(model.subgraphs):
    for ti, t in enumerate(sg.tensors):
      q = t.quantization
      if q is None or q.scale is None or len(q.scale) == 0:
        continue
      ns = len(q.scale)
      nz = 0 if q.zeroPoint is None else len(q.zeroPoint)
      if nz != ns:
        pr.append(f'sg{si} tensor {tname(t)!r}: {nz} zero points for {ns} '
                  'scales')
      if ns > 1:
        qd = q.quantizedDimension
        shape = [int(x) for x in (t.shape if t.shape is not None else [])]
        if not 0 <= qd < len(shape):
          pr.append(f'sg{si} tensor {tname(t)!r}: {ns} scales but quantized '
                    f'dimension {qd} outside rank {len(shape)}')
        elif shape[qd] != ns:
          pr.append(f'sg{si} tensor {tname(t)!r}: {ns} scales but dimension '
                    f'{qd} has extent {shape[qd]}')
  return pr


def fc_shapes_consistent(model):
  """FULLY_CONNECTED as the kernel's Prepare demands it: a rank-2 filter whose
  second extent is the input's last extent."""
  pr = []
  for si, sg in enumerate(model.subgraphs):
    for oi, op in enumerate(sg.operators):
      if model.operatorCodes[op.opcodeIndex].builtinCode != \
          BO.FULLY_CONNECTED or len(op.inputs) < 2:
        continue
      x, w = sg.tensors[op.inputs[0]], sg.tensors[op.inputs[1]]
      ws = [int(v) for v in (w.shape if w.shape is not None else [])]
      xs = [int(v) for v in (x.shape if x.shape is not None else [])]
      if len(ws) != 2:
        pr.append(f'sg{si} op {oi}: FULLY_CONNECTED filter {tname(w)!r} has '
                  f'rank {len(ws)}')
      elif xs and xs[-1] != ws[1]:
        pr.append(f'sg{si} op {oi}: FULLY_CONNECTED filter {ws} does not '
                  f'match input {xs}')
  return pr


def _code(model, op):
  return model.operatorCodes[op.opcodeIndex].builtinCode


def _is_qdq(model, op):
  return _code(model, op) in (BO.QUANTIZE, BO.DEQUANTIZE)


def _options_key(op):
  o = op.builtinOptions
  if o is None:
    return None
  d = {}
  for k, v in vars(o).items():
    try:
      d[k] = list(v) if hasattr(v, '__iter__') and not isinstance(
          v, (str, bytes)) else v
    except TypeError:
      d[k] = v
  return (type(o).__name__, tuple(sorted((k, str(v)) for k, v in d.items())))


def skeleton_iso(inp, out, io_quantized=None):
  """C02: deleting inserted Q/DQ ops (and ignoring dtype/quantization) yields
  the input graph; I/O contract kept.

  io_quantized: dict (subgraph index, 'INPUT'|'OUTPUT') -> bool, whether the
  recipe covers the virtual INPUT/OUTPUT op of that subgraph (then model I/O
  may be integer); default False.
  """
  pr = []
  io_quantized = io_quantized or {}
  if len(inp.subgraphs) != len(out.subgraphs):
    return [f'subgraph count {len(inp.subgraphs)} -> {len(out.subgraphs)}']
  for si, (gi, go) in enumerate(zip(inp.subgraphs, out.subgraphs)):
    n0 = len(gi.tensors)
    if len(go.tensors) < n0:
      pr.append(f'sg{si}: original tensors dropped')
      continue
    for ti in range(n0):
      a, b = gi.tensors[ti], go.tensors[ti]
      if tname(a) != tname(b):
        pr.append(f'sg{si}: tensor {tname(a)!r} renamed to {tname(b)!r}')
      if list(a.shape if a.shape is not None else []) != list(
          b.shape if b.shape is not None else []):
        pr.append(f'sg{si}: tensor {tname(a)!r} reshaped')
    # alias: new tensor -> original tensor it stands for
    alias = {i: i for i in range(n0)}
    kept = []
    for oi, op in enumerate(go.operators):
      if (_is_qdq(out, op) and len(op.outputs) == 1 and op.outputs[0] >= n0
          and len(op.inputs) == 1):
        src = op.inputs[0]
        if src not in alias:
          pr.append(f'sg{si} op {oi}: inserted Q/DQ reads tensor {src} that '
                    'is not (an alias of) an original tensor at this point')
          alias[op.outputs[0]] = -2
        else:
          alias[op.outputs[0]] = alias[src]
        continue
      kept.append(op)
    if len(kept) != len(gi.operators):
      pr.append(f'sg{si}: {len(gi.operators)} operators -> {len(kept)} after '
                'deleting inserted QUANTIZE/DEQUANTIZE')
      continue
    for oi, (a, b) in enumerate(zip(gi.operators, kept)):
      if _code(inp, a) != _code(out, b):
        pr.append(f'sg{si} op {oi}: operator type changed')
        continue
      if _options_key(a) != _options_key(b):
        pr.append(f'sg{si} op {oi}: options changed')
      ia = list(a.inputs)
      ib = [(-1 if x == -1 else alias.get(x, -3)) for x in b.inputs]
      if ia != ib:
        pr.append(f'sg{si} op {oi}: operands wired to {ib}, originally {ia}')
      oa = list(a.outputs)
      ob = [alias.get(x, -3) for x in b.outputs]
      if oa != ob:
        pr.append(f'sg{si} op {oi}: results wired to {ob}, originally {oa}')
      if any(x >= n0 for x in b.outputs):
        pr.append(f'sg{si} op {oi}: original operator writes a new tensor')
    # graph inputs / outputs: same number, order; denote the same tensor
    if list(gi.inputs) != [alias.get(x, -3) for x in go.inputs]:
      pr.append(f'sg{si}: inputs {list(go.inputs)} do not denote the '
                f'original inputs {list(gi.inputs)}')
    if list(gi.outputs) != [alias.get(x, -3) for x in go.outputs]:
      pr.append(f'sg{si}: outputs {list(go.outputs)} do not denote the '
                f'original outputs {list(gi.outputs)}')
    for kind, lst in (('INPUT', go.inputs), ('OUTPUT', go.outputs)):
      for pos, x in enumerate(lst):
        if not 0 <= x < len(go.tensors):
          continue
        t = go.tensors[x]
        orig = alias.get(x, -3)
        if 0 <= orig < n0:
          t0 = gi.tensors[orig]
          if list(t.shape if t.shape is not None else []) != list(
              t0.shape if t0.shape is not None else []):
            pr.append(f'sg{si}: model {kind.lower()} {pos} changed shape')
          if (t0.type == TT.FLOAT32 and t.type != TT.FLOAT32
              and not io_quantized.get((si, kind), False)):
            pr.append(f'sg{si}: model {kind.lower()} {pos} '
                      f'({tname(t)!r}) is no longer float32 although no rule '
                      f'covers {kind}')
  # signatures
  si_in = {sd.signatureKey: sd for sd in (inp.signatureDefs or [])}
  si_out = {sd.signatureKey: sd for sd in (out.signatureDefs or [])}
  if set(si_in) != set(si_out):
    pr.append('signature keys changed')
  for k, a in si_in.items():
    b = si_out.get(k)
    if b is None:
      continue
    if a.subgraphIndex != b.subgraphIndex:
      pr.append(f'signature {k}: subgraph index changed')
      continue
    go = out.subgraphs[b.subgraphIndex]
    gi = inp.subgraphs[a.subgraphIndex]
    for what, la, lb, g_in, g_out in (
        ('inputs', a.inputs, b.inputs, gi.inputs, go.inputs),
        ('outputs', a.outputs, b.outputs, gi.outputs, go.outputs)):
      na = [tm.name for tm in (la or [])]
      nb = [tm.name for tm in (lb or [])]
      if na != nb:
        pr.append(f'signature {k}: {what} argument names changed')
        continue
      for tma, tmb in zip(la or [], lb or []):
        # position of the entry among the subgraph's inputs/outputs
        if tma.tensorIndex in list(g_in):
          pos = list(g_in).index(tma.tensorIndex)
          if pos >= len(g_out) or tmb.tensorIndex != list(g_out)[pos]:
            pr.append(
                f'signature {k}: {what} entry {tma.name!r} refers to tensor '
                f'{tmb.tensorIndex}, but subgraph {what}[{pos}] is '
                f'{list(g_out)[pos] if pos < len(g_out) else None}')
  return pr


# ---------------------------------------------------------------------------
# C03: each op runs in the mode its rule selected
# ---------------------------------------------------------------------------
INT_TYPE = {4: TT.INT4, 8: TT.INT8, 16: TT.INT16}
WEIGHT_OPS = {  # op code -> (weight operand index, bias operand index)
    BO.FULLY_CONNECTED: (1, 2), BO.CONV_2D: (1, 2),
    BO.DEPTHWISE_CONV_2D: (1, 2), BO.TRANSPOSE_CONV: (1, 3),
    BO.EMBEDDING_LOOKUP: (1, None), BO.BATCH_MATMUL: (1, None),
}


def buffer_bytes(model, t):
  d = model.buffers[t.buffer].data
  if d is None:
    return None
  if hasattr(d, 'tobytes'):
    return d.tobytes()
  return bytes(d)


def _producer(model, sg, tensor_idx):
  for op in sg.operators:
    if tensor_idx in list(op.outputs):
      return op
  return None


def mode_of(resolved):
  """resolved = (algorithm_key str, OpQuantizationConfig) -> mode string."""
  alg, cfg = resolved
  alg = getattr(alg, 'value', alg)
  if alg == 'no_quantize':
    return 'NOQ'
  if alg == 'float_casting':
    return 'FP16'
  cp = getattr(cfg.compute_precision, 'value', cfg.compute_precision)
  if cp == 'INTEGER' and cfg.activation_tensor_config is not None:
    return 'SRQ'
  if cp == 'INTEGER':
    return 'DRQ'
  if cfg.explicit_dequantize:
    return 'WO'
  return 'OTHER'


def modes(inp, out, resolve):
  """resolve(subgraph_index, op_index) -> (algorithm, config) or None for
  operators whose type the quantizer does not know (always NOQ)."""
  pr = []
  for si, (gi, go) in enumerate(zip(inp.subgraphs, out.subgraphs)):
    n0 = len(gi.tensors)
    kept = [op for op in go.operators
            if not (_is_qdq(out, op) and len(op.outputs) == 1
                    and op.outputs[0] >= n0)]
    if len(kept) != len(gi.operators):
      pr.append(f'sg{si}: operator count mismatch (see C02)')
      continue
    for oi, (a, b) in enumerate(zip(gi.operators, kept)):
      r = resolve(si, oi)
      mode = 'NOQ' if r is None else mode_of(r)
      cfg = None if r is None else r[1]
      code = _code(inp, a)
      widx, bidx = WEIGHT_OPS.get(code, (None, None))
      where = f'sg{si} op {oi} ({mode})'
      pairs = ([('in', k, x, y) for k, (x, y) in enumerate(zip(a.inputs, b.inputs))]
               + [('out', k, x, y) for k, (x, y) in enumerate(zip(a.outputs, b.outputs))])
      for io, k, x, y in pairs:
        if x == -1:
          if y != -1:
            pr.append(f'{where}: absent operand {k} became present')
          continue
        if not 0 <= y < len(go.tensors):
          continue
        t0, t1 = gi.tensors[x], go.tensors[y]
        was_const = has_data(inp, t0)
        nm = tname(t0)
        if t0.type != TT.FLOAT32:
          if t1.type != t0.type or y != x:
            pr.append(f'{where}: non-float operand {nm!r} was touched')
          elif was_const and buffer_bytes(inp, t0) != buffer_bytes(out, t1):
            pr.append(f'{where}: non-float constant {nm!r} bytes changed')
          continue
        is_w = io == 'in' and k == widx and was_const
        is_b = io == 'in' and bidx is not None and k == bidx and was_const
        if mode == 'NOQ' or mode == 'OTHER':
          if t1.type != TT.FLOAT32:
            pr.append(f'{where}: float operand {nm!r} now has type '
                      f'{t1.type}')
          if was_const:
            if y != x or buffer_bytes(inp, t0) != buffer_bytes(out, t1):
              pr.append(f'{where}: constant {nm!r} of an unquantized op is '
                        'no longer byte-identical')
        elif mode in ('WO', 'FP16'):
          if t1.type != TT.FLOAT32:
            pr.append(f'{where}: operand {nm!r} must stay float, is '
                      f'{t1.type}')
          if is_w:
            p = _producer(out, go, y)
            want = ((TT.FLOAT16,) if mode == 'FP16' else
                    (INT_TYPE[cfg.weight_tensor_config.num_bits],))
            if p is None or _code(out, p) != BO.DEQUANTIZE:
              pr.append(f'{where}: weight {nm!r} is not received through a '
                        'DEQUANTIZE')
            else:
              src = go.tensors[p.inputs[0]]
              if src.type not in want or not has_data(out, src):
                pr.append(f'{where}: DEQUANTIZE of weight {nm!r} reads type '
                          f'{src.type}, expected {want} constant')
          elif was_const:
            if y != x or buffer_bytes(inp, t0) != buffer_bytes(out, t1):
              pr.append(f'{where}: non-weight constant {nm!r} changed')
        elif mode == 'DRQ':
          if is_w:
            want = INT_TYPE[cfg.weight_tensor_config.num_bits]
            if t1.type != want or not has_data(out, t1):
              pr.append(f'{where}: weight {nm!r} has type {t1.type}, '
                        f'expected integer constant {want}')
          else:
            if t1.type != TT.FLOAT32:
              pr.append(f'{where}: operand {nm!r} must stay float, is '
                        f'{t1.type}')
        elif mode == 'SRQ':
          abits = cfg.activation_tensor_config.num_bits
          if is_b:
            want = TT.INT64 if abits == 16 else TT.INT32
          elif is_w:
            want = INT_TYPE[cfg.weight_tensor_config.num_bits]
          else:
            want = INT_TYPE[abits]
          if t1.type != want:
            pr.append(f'{where}: operand {nm!r} has type {t1.type}, '
                      f'expected {want}')
    # inserted ops convert between what their neighbours carry
    for oi, op in enumerate(go.operators):
      if not (_is_qdq(out, op) and len(op.outputs) == 1
              and op.outputs[0] >= n0):
        continue
      tin, tout = go.tensors[op.inputs[0]], go.tensors[op.outputs[0]]
      if _code(out, op) == BO.DEQUANTIZE:
        if tout.type != TT.FLOAT32 or tin.type == TT.FLOAT32:
          pr.append(f'sg{si}: DEQUANTIZE {tname(tin)!r}: {tin.type} -> '
                    f'{tout.type}')
        if tin.type != TT.FLOAT16 and (
            tin.quantization is None or tin.quantization.scale is None):
          pr.append(f'sg{si}: DEQUANTIZE reads {tname(tin)!r} which has no '
                    'quantization parameters')
      else:
        if tout.type in (TT.FLOAT32, TT.FLOAT16):
          pr.append(f'sg{si}: QUANTIZE writes float tensor {tname(tout)!r}')
        if tout.quantization is None or tout.quantization.scale is None:
          pr.append(f'sg{si}: QUANTIZE output {tname(tout)!r} has no '
                    'quantization parameters')
  return pr


# ---------------------------------------------------------------------------
# C04 at model level: what every operator reads and writes in the rewritten
# model carries exactly the parameters the parameter generator computed for
# that (tensor, operator) pair
# ---------------------------------------------------------------------------
_BITS_TYPE = {4: TT.INT4, 8: TT.INT8, 16: TT.INT16, 32: TT.INT32, 64: TT.INT64}


def _flat_terms(x, dtype=None):
  """List of z3 terms / Python numbers of an array-like of parameters."""
  from symx import symnp
  from symx.symnp import SymArray
  import numpy as _np
  if isinstance(x, (list, tuple)):
    out = []
    for y in x:
      out += _flat_terms(y, dtype)
    return out
  if isinstance(x, SymArray):
    if dtype is not None and x.dtype != _np.dtype(dtype):
      x = symnp.astype(x, dtype)
    return list(x.terms())
  a = _np.asarray(x)
  if dtype is not None:
    with _np.errstate(all='ignore'):
      a = a.astype(dtype)
  return [v.item() for v in a.reshape(-1)]


def _eq_terms(a, b, dtype):
  """Equality of two parameter lists: bool, or a z3 formula."""
  import z3
  import numpy as _np
  from symx import symnp
  if len(a) != len(b):
    return False
  cs = []
  for x, y in zip(a, b):
    xs, ys = z3.is_expr(x), z3.is_expr(y)
    if not xs and not ys:
      if not (x == y):
        return False
      continue
    if not xs:
      x = symnp.backend().lift(_np.dtype(dtype), _np.dtype(dtype).type(x))
    if not ys:
      y = symnp.backend().lift(_np.dtype(dtype), _np.dtype(dtype).type(y))
    if xs and ys and x.sort() != y.sort():
      return False
    try:
      cs.append(x == y)  # SMT equality; identical terms decide at once
    except z3.Z3Exception:
      return False
  if not cs:
    return True
  return z3.And(*cs)


def _carries(t, p):
  """Tensor t of the rewritten model carries UniformQuantParams p."""
  import numpy as _np
  q = t.quantization
  if q is None or q.scale is None or len(q.scale) == 0:
    return False, 'not quantized'
  if t.type != _BITS_TYPE.get(p.num_bits):
    return False, f'type {t.type} for {p.num_bits} bits'
  if (q.quantizedDimension or 0) != (p.quantized_dimension or 0):
    return False, (f'quantized dimension {q.quantizedDimension} vs '
                   f'{p.quantized_dimension}')
  s = _eq_terms(_flat_terms(q.scale, _np.float32),
                _flat_terms(p.scale, _np.float32), _np.float32)
  if s is False:
    return False, 'scale'
  z = _eq_terms(_flat_terms(q.zeroPoint, _np.int64),
                _flat_terms(p.zero_point, _np.int64), _np.int64)
  if z is False:
    return False, 'zero point'
  if s is True and z is True:
    return True, ''
  import z3
  return z3.And(*[c for c in (s, z) if c is not True]), 'scale/zero point'


def carried_params(inp, out, params):
  """List of (where, cond, what): cond is a bool or a z3 formula."""
  from ai_edge_quantizer import qtyping
  QT = qtyping.QuantTransformation
  res = []
  if len(inp.subgraphs) != len(out.subgraphs):
    return res
  for si, (gi, go) in enumerate(zip(inp.subgraphs, out.subgraphs)):
    n0 = len(gi.tensors)
    kept, producer_of = [], {}
    for op in go.operators:
      for o in op.outputs:
        producer_of[o] = op
      if (_is_qdq(out, op) and len(op.outputs) == 1 and op.outputs[0] >= n0
          and len(op.inputs) == 1):
        continue
      kept.append(op)
    if len(kept) != len(gi.operators):
      continue  # C02's business
    for oi, (a, b) in enumerate(zip(gi.operators, kept)):
      if len(a.inputs) != len(b.inputs) or len(a.outputs) != len(b.outputs):
        continue
      for j, x in enumerate(a.inputs):
        if x == -1 or b.inputs[j] == -1:
          continue
        name = tname(gi.tensors[x])
        ttp = params.get(name)
        cs = [c for c in (ttp.consumers or []) if c.subgraph_op_id == oi] \
            if ttp is not None else []
        if not cs or not isinstance(cs[0].parameters,
                                    qtyping.UniformQuantParams):
          continue
        c = cs[0]
        tr = list(c.transformations or [])
        if not tr or QT.EMULATED_SUBCHANNEL in tr:
          continue
        actual = go.tensors[b.inputs[j]]
        where = f'sg{si} op {oi} operand {j} ({name!r})'
        if tr[-1] in (QT.ADD_QUANTIZE, QT.QUANTIZE_TENSOR):
          ok, what = _carries(actual, c.parameters)
          res.append((where, ok, what))
        elif tr[-1] == QT.ADD_DEQUANTIZE:
          src = producer_of.get(b.inputs[j])
          if actual.type != TT.FLOAT32 or src is None or \
              _code(out, src) != BO.DEQUANTIZE:
            res.append((where, False, 'not read through a DEQUANTIZE'))
            continue
          ok, what = _carries(go.tensors[src.inputs[0]], c.parameters)
          res.append((where + ' before DEQUANTIZE', ok, what))
      for j, x in enumerate(a.outputs):
        name = tname(gi.tensors[x])
        ttp = params.get(name)
        p = ttp.producer if ttp is not None else None
        if p is None or p.subgraph_op_id != oi or not isinstance(
            p.parameters, qtyping.UniformQuantParams):
          continue
        tr = list(p.transformations or [])
        if tr != [QT.ADD_DEQUANTIZE]:
          continue
        ok, what = _carries(go.tensors[b.outputs[j]], p.parameters)
        res.append((f'sg{si} op {oi} result {j} ({name!r})', ok, what))
  return res
