"""Symbolic NumPy: SymArray (concrete shape/dtype, symbolic elements) + proxy.

Installed as `np` in the real repo modules (symx.patch).  Only the operations
the analysed code uses are implemented; anything else raises Unsupported and
the check ends inconclusive.
"""
from __future__ import annotations

import builtins
import itertools
import warnings
import numpy as np
import z3

from symx import backends as B
from symx.core import SymBool, SymInt, Unsupported, engine, mkbool, Engine

_real_np = np
_backend: B.Base = B.Bits()


def set_backend(b):
  global _backend
  _backend = b
  return b


def backend():
  return _backend


def _is_sym_el(x):
  return z3.is_expr(x)


def _idx_array(shape):
  n = int(_real_np.prod(shape)) if len(shape) else 1
  return _real_np.arange(n).reshape(shape)


class SymBytes:
  """Result of SymArray.tobytes(): little-endian byte view."""

  def __init__(self, arr):
    self.arr = arr

  def __len__(self):
    return self.arr.size * self.arr.dtype.itemsize

  def byte_terms(self):
    out = []
    be = _backend
    for x in self.arr.el:
      out.extend(be.to_bytes(self.arr.dtype, be.lift(self.arr.dtype, x)))
    return out

  def __deepcopy__(self, memo):
    return self


class SymArray:
  __slots__ = ('shape', 'dtype', 'el')
  __array_ufunc__ = None
  __array_priority__ = 1000

  def __init__(self, shape, dtype, el):
    self.shape = tuple(int(s) for s in shape)
    self.dtype = _real_np.dtype(dtype)
    self.el = list(el)
    n = 1
    for s in self.shape:
      n *= s
    assert n == len(self.el), (shape, len(self.el))

  # ---- construction ------------------------------------------------------
  @staticmethod
  def fresh(name, shape, dtype, register=True):
    dt = _real_np.dtype(dtype)
    shape = tuple(shape)
    n = int(_real_np.prod(shape)) if shape else 1
    el = []
    eng = Engine.current
    for i in range(n):
      nm = f'{name}_{i}' if shape else name
      v = _backend.var(nm, dt)
      el.append(v)
      if register and eng is not None:
        eng.register_input(nm, v)
    return SymArray(shape, dt, el)

  @staticmethod
  def from_numpy(a):
    a = _real_np.asarray(a)
    return SymArray(a.shape, a.dtype, [x for x in a.reshape(-1)])

  # ---- basic attributes --------------------------------------------------
  @property
  def ndim(self):
    return len(self.shape)

  @property
  def size(self):
    return len(self.el)

  @property
  def T(self):
    return transpose(self)

  def __len__(self):
    if not self.shape:
      raise TypeError('len() of unsized object')
    return self.shape[0]

  def is_concrete(self):
    return all(B.is_conc(x) for x in self.el)

  def to_numpy(self):
    if not self.is_concrete():
      raise Unsupported('symbolic array forced to concrete NumPy')
    return _real_np.array(self.el, dtype=self.dtype).reshape(self.shape)

  def terms(self):
    """Elements lifted to z3 terms of the current back end."""
    return [_backend.lift(self.dtype, x) for x in self.el]

  def __deepcopy__(self, memo):
    return self

  def __copy__(self):
    return self

  def copy(self):
    return self

  def __repr__(self):
    return f'SymArray({self.shape}, {self.dtype}, {self.el[:4]}...)'

  # ---- shape ops -----------------------------------------------------------
  def _take(self, idx):
    idx = _real_np.asarray(idx)
    return SymArray(idx.shape, self.dtype, [self.el[i] for i in idx.reshape(-1)])

  def reshape(self, *shape):
    if len(shape) == 1 and not isinstance(shape[0], (int, _real_np.integer)):
      shape = shape[0]
    return self._take(_idx_array(self.shape).reshape(shape))

  def flatten(self):
    return self._take(_idx_array(self.shape).reshape(-1))

  ravel = flatten

  def squeeze(self, axis=None):
    return self._take(_real_np.squeeze(_idx_array(self.shape), axis=axis))

  def transpose(self, *axes):
    if len(axes) == 1 and not isinstance(axes[0], int):
      axes = axes[0]
    return self._take(_real_np.transpose(_idx_array(self.shape), axes or None))

  def __getitem__(self, key):
    key = _concretize_key(key)
    r = _idx_array(self.shape)[key]
    if _real_np.ndim(r) == 0:
      return SymArray((), self.dtype, [self.el[int(r)]])
    return self._take(r)

  def __iter__(self):
    if not self.shape:
      raise TypeError('iteration over a 0-d array')
    for i in range(self.shape[0]):
      yield self[i]

  def item(self, *args):
    if args:
      raise Unsupported('item(args)')
    if self.size != 1:
      raise ValueError('can only convert an array of size 1 to a Python scalar')
    x = self.el[0]
    if B.is_conc(x):
      return x.item() if hasattr(x, 'item') else x
    return SymScalar(self.dtype, x)

  def tolist(self):
    return self.to_numpy().tolist()

  def astype(self, dtype, **kw):
    return astype(self, dtype)

  def tobytes(self):
    if self.is_concrete():
      return self.to_numpy().tobytes()
    return SymBytes(self)

  def view(self, dtype):
    return frombuffer(self.tobytes(), dtype).reshape(
        self.shape[:-1] + (-1,)) if self.shape else frombuffer(
            self.tobytes(), dtype)

  def min(self, axis=None, keepdims=False):
    return reduce_minmax('minimum', self, axis, keepdims)

  def max(self, axis=None, keepdims=False):
    return reduce_minmax('maximum', self, axis, keepdims)

  def mean(self, axis=None, dtype=None, keepdims=False):
    return mean(self, axis=axis, dtype=dtype, keepdims=keepdims)

  def sum(self, axis=None, keepdims=False):
    return sum_(self, axis=axis, keepdims=keepdims)

  # ---- arithmetic ----------------------------------------------------------
  # in-place operators: NumPy computes in the promoted type and casts the
  # result back to the dtype of the left operand ('same_kind' casting)
  def _inplace(self, op, o):
    r = binop(op, self, o)
    if not isinstance(r, SymArray):
      r = SymArray.from_numpy(_real_np.asarray(r))
    if r.dtype != self.dtype:
      if not _real_np.can_cast(r.dtype, self.dtype, casting='same_kind'):
        raise TypeError(
            f"Cannot cast ufunc '{op}' output from {r.dtype} to {self.dtype} "
            "with casting rule 'same_kind'")
      r = astype(r, self.dtype)
    if r.shape != self.shape:
      raise ValueError('non-broadcastable output operand')
    return r

  def __iadd__(self, o):
    return self._inplace('add', o)

  def __isub__(self, o):
    return self._inplace('sub', o)

  def __imul__(self, o):
    return self._inplace('mul', o)

  def __itruediv__(self, o):
    return self._inplace('div', o)

  def __add__(self, o):
    return binop('add', self, o)

  def __radd__(self, o):
    return binop('add', o, self)

  def __sub__(self, o):
    return binop('sub', self, o)

  def __rsub__(self, o):
    return binop('sub', o, self)

  def __mul__(self, o):
    return binop('mul', self, o)

  def __rmul__(self, o):
    return binop('mul', o, self)

  def __truediv__(self, o):
    return binop('div', self, o)

  def __rtruediv__(self, o):
    return binop('div', o, self)

  def __and__(self, o):
    return binop('and', self, o)

  def __rand__(self, o):
    return binop('and', o, self)

  def __or__(self, o):
    return binop('or', self, o)

  def __ror__(self, o):
    return binop('or', o, self)

  def __lshift__(self, o):
    return binop('lshift', self, o)

  def __rshift__(self, o):
    return binop('rshift', self, o)

  def __neg__(self):
    return unop('neg', self)

  def __pos__(self):
    return self

  def __abs__(self):
    return unop('abs', self)

  def __lt__(self, o):
    return cmpop('lt', self, o)

  def __le__(self, o):
    return cmpop('le', self, o)

  def __gt__(self, o):
    return cmpop('gt', self, o)

  def __ge__(self, o):
    return cmpop('ge', self, o)

  def __eq__(self, o):
    if o is None:
      return False
    return cmpop('eq', self, o)

  def __ne__(self, o):
    if o is None:
      return True
    return cmpop('ne', self, o)

  __hash__ = None

  def __bool__(self):
    if self.size != 1:
      raise ValueError('The truth value of an array with more than one element'
                       ' is ambiguous.')
    x = self.el[0]
    if B.is_conc(x):
      return bool(x)
    if B.is_bool(self.dtype):
      return engine().decide(x)
    z = _backend.lift(self.dtype, x)
    zero = _backend.const(self.dtype, 0)
    if B.is_float(self.dtype):
      return engine().decide(z3.Not(_backend.fcmp('eq', self.dtype, z, zero)))
    return engine().decide(z != zero)

  def __float__(self):
    if self.size == 1 and B.is_conc(self.el[0]):
      return float(self.el[0])
    raise Unsupported('float() of symbolic array')

  def __int__(self):
    if self.size == 1 and B.is_conc(self.el[0]):
      return int(self.el[0])
    raise Unsupported('int() of symbolic array')

  __index__ = __int__


class SymScalar(SymArray):
  """A Python-level scalar extracted with .item(): weakly typed like float."""
  __slots__ = ()

  def __init__(self, dtype, x):
    SymArray.__init__(self, (), dtype, [x])


def _concretize_key(key):
  def c(k):
    if isinstance(k, SymInt):
      return int(k)
    if isinstance(k, slice):
      return slice(c(k.start), c(k.stop), c(k.step))
    if isinstance(k, tuple):
      return tuple(c(x) for x in k)
    return k
  return c(key)


# ---------------------------------------------------------------------------
# operand handling / promotion
# ---------------------------------------------------------------------------
_WEAK = (bool, int, float)


def is_sym(x):
  if isinstance(x, SymArray):
    return True
  if isinstance(x, (list, tuple)):
    return any(is_sym(y) for y in x)
  return False


def _operand(x):
  """-> (SymArray, weak_python_scalar_or_None)."""
  if isinstance(x, SymScalar):
    # result of .item(): behaves like a Python float/int (weak)
    return x, 'weakarr'
  if isinstance(x, SymArray):
    return x, None
  if isinstance(x, SymInt):
    raise Unsupported('SymInt mixed into array arithmetic')
  if isinstance(x, _WEAK) and not isinstance(x, _real_np.generic):
    return None, x
  a = _real_np.asarray(x)
  if a.dtype == object:
    # list containing SymArrays
    return stack_list(x), None
  return SymArray.from_numpy(a), None


def _result_dtype(op, ops):
  args = []
  for arr, weak in ops:
    if weak is None:
      args.append(arr.dtype)
    elif isinstance(weak, str):  # weakarr
      args.append(1.0 if B.is_float(arr.dtype) else 1)
    else:
      args.append(weak)
  if all(not isinstance(a, _real_np.dtype) for a in args):
    rt = _real_np.result_type(*[_real_np.asarray(a).dtype for a in args])
  else:
    rt = _real_np.result_type(*args)
  if op == 'div' and not B.is_float(rt):
    rt = _real_np.dtype('float64')
  return rt


def _cast_el(src, dst, x):
  if src == dst:
    return x
  if B.is_conc(x):
    with warnings.catch_warnings():
      warnings.simplefilter('ignore')
      return _real_np.array(x, dtype=src).astype(dst)[()]
  return _backend.cast(src, dst, x)


def _weak_el(dt, v):
  with warnings.catch_warnings():
    warnings.simplefilter('ignore')
    return _real_np.array(v).astype(dt)[()]


_NP_BIN = {
    'add': _real_np.add, 'sub': _real_np.subtract, 'mul': _real_np.multiply,
    'div': _real_np.true_divide, 'maximum': _real_np.maximum,
    'minimum': _real_np.minimum, 'and': _real_np.bitwise_and,
    'or': _real_np.bitwise_or, 'xor': _real_np.bitwise_xor,
    'lshift': _real_np.left_shift, 'rshift': _real_np.right_shift,
}
_NP_CMP = {
    'lt': _real_np.less, 'le': _real_np.less_equal, 'gt': _real_np.greater,
    'ge': _real_np.greater_equal, 'eq': _real_np.equal,
    'ne': _real_np.not_equal,
}
_NP_UN = {
    'abs': _real_np.abs, 'neg': _real_np.negative, 'rint': _real_np.rint,
    'square': _real_np.square, 'invert': _real_np.invert,
    'floor': _real_np.floor, 'ceil': _real_np.ceil, 'trunc': _real_np.trunc,
}


def _prep(op, a, b):
  ops = [_operand(a), _operand(b)]
  rt = _result_dtype(op, ops)
  shapes = [o[0].shape if o[0] is not None else () for o in ops]
  oshape = _real_np.broadcast_shapes(*shapes)
  cols = []
  for (arr, weak), shp in zip(ops, shapes):
    if arr is None:
      el = [_weak_el(rt, weak)]
    else:
      el = [_cast_el(arr.dtype, rt, x) for x in arr.el]
    idx = _real_np.broadcast_to(_idx_array(shp), oshape).reshape(-1)
    cols.append([el[i] for i in idx])
  return rt, oshape, cols


def binop(op, a, b):
  rt, oshape, (ea, eb) = _prep(op, a, b)
  out = []
  be = _backend
  for x, y in zip(ea, eb):
    if B.is_conc(x) and B.is_conc(y):
      with warnings.catch_warnings():
        warnings.simplefilter('ignore')
        out.append(_NP_BIN[op](x, y))
      continue
    x, y = be.lift(rt, x), be.lift(rt, y)
    if B.is_float(rt):
      out.append(be.fbin(op, rt, x, y))
    elif B.is_int(rt):
      out.append(be.ibin(op, rt, x, y))
    elif B.is_bool(rt) and op in ('and', 'or'):
      out.append(z3.And(x, y) if op == 'and' else z3.Or(x, y))
    else:
      raise Unsupported(f'binop {op} on {rt}')
  return SymArray(oshape, rt, out)


def cmpop(op, a, b):
  rt, oshape, (ea, eb) = _prep(op, a, b)
  out = []
  be = _backend
  for x, y in zip(ea, eb):
    if B.is_conc(x) and B.is_conc(y):
      out.append(_NP_CMP[op](x, y))
      continue
    x, y = be.lift(rt, x), be.lift(rt, y)
    if B.is_float(rt):
      out.append(be.fcmp(op, rt, x, y))
    elif B.is_int(rt):
      out.append(be.icmp(op, rt, x, y))
    else:
      out.append((x == y) if op == 'eq' else (x != y))
  return SymArray(oshape, _real_np.dtype(bool), out)


def unop(op, a):
  arr, _ = _operand(a)
  if arr is None:
    return _NP_UN[op](a)
  dt = arr.dtype
  out = []
  be = _backend
  for x in arr.el:
    if B.is_conc(x):
      with warnings.catch_warnings():
        warnings.simplefilter('ignore')
        out.append(_NP_UN[op](x))
      continue
    if B.is_float(dt):
      out.append(be.fun(op, dt, x))
    elif B.is_int(dt):
      if op == 'rint':
        raise Unsupported('rint on ints')
      out.append(be.iun(op, dt, x))
    else:
      raise Unsupported(f'unop {op} on {dt}')
  return SymArray(arr.shape, dt, out)


def astype(a, dtype):
  arr, _ = _operand(a)
  dt = _real_np.dtype(dtype)
  return SymArray(arr.shape, dt, [_cast_el(arr.dtype, dt, x) for x in arr.el])


# ---------------------------------------------------------------------------
# numpy-level functions
# ---------------------------------------------------------------------------
def maximum(a, b):
  return binop('maximum', a, b)


def minimum(a, b):
  return binop('minimum', a, b)


def clip(a, lo, hi):
  # NumPy: minimum(maximum(a, lo), hi) with NaN of `a` propagating
  arr, _ = _operand(a)
  if isinstance(lo, (int, float)) and isinstance(hi, (int, float)):
    pass
  r = binop('maximum', arr, lo)
  r = binop('minimum', r, hi)
  return r


def transpose(a, axes=None):
  arr, _ = _operand(a)
  return arr._take(_real_np.transpose(_idx_array(arr.shape), axes))


def reshape(a, shape, *args, **kw):
  arr, _ = _operand(a)
  return arr.reshape(shape)


def expand_dims(a, axis):
  arr, _ = _operand(a)
  return arr._take(_real_np.expand_dims(_idx_array(arr.shape), axis))


def squeeze(a, axis=None):
  arr, _ = _operand(a)
  return arr.squeeze(axis)


def zeros_like(a, dtype=None):
  arr, _ = _operand(a)
  dt = _real_np.dtype(dtype) if dtype is not None else arr.dtype
  return _real_np.zeros(arr.shape, dtype=dt)


def ones_like(a, dtype=None):
  arr, _ = _operand(a)
  dt = _real_np.dtype(dtype) if dtype is not None else arr.dtype
  return _real_np.ones(arr.shape, dtype=dt)


def _reduce(arr, axis, keepdims, f):
  idx = _idx_array(arr.shape)
  if axis is None:
    axes = tuple(range(arr.ndim))
  elif isinstance(axis, (int, _real_np.integer)):
    axes = (int(axis),)
  else:
    axes = tuple(int(x) for x in axis)
  axes = tuple(x % arr.ndim for x in axes) if arr.ndim else ()
  keep = [i for i in range(arr.ndim) if i not in axes]
  moved = _real_np.transpose(idx, keep + list(axes))
  kshape = tuple(arr.shape[i] for i in keep)
  nred = 1
  for i in axes:
    nred *= arr.shape[i]
  moved = moved.reshape(kshape + (nred,))
  flat = moved.reshape(-1, nred)
  out = [f([arr.el[i] for i in row]) for row in flat]
  if keepdims:
    oshape = tuple(1 if i in axes else arr.shape[i] for i in range(arr.ndim))
  else:
    oshape = kshape
  return oshape, out


def _fold2(op, dt, xs):
  acc = xs[0]
  be = _backend
  for y in xs[1:]:
    if B.is_conc(acc) and B.is_conc(y):
      with warnings.catch_warnings():
        warnings.simplefilter('ignore')
        acc = _NP_BIN[op](acc, y)
      continue
    a, b = be.lift(dt, acc), be.lift(dt, y)
    acc = be.fbin(op, dt, a, b) if B.is_float(dt) else be.ibin(op, dt, a, b)
  return acc


def reduce_minmax(op, a, axis=None, keepdims=False):
  arr, _ = _operand(a)
  if arr.size == 0:
    raise ValueError('zero-size array to reduction operation')
  oshape, out = _reduce(arr, axis, keepdims,
                        lambda xs: _fold2(op, arr.dtype, xs))
  return SymArray(oshape, arr.dtype, out)


def amin(a, axis=None, keepdims=False, **kw):
  return reduce_minmax('minimum', a, axis, keepdims)


def amax(a, axis=None, keepdims=False, **kw):
  return reduce_minmax('maximum', a, axis, keepdims)


def sum_(a, axis=None, keepdims=False, dtype=None):
  arr, _ = _operand(a)
  if dtype is not None:
    arr = astype(arr, dtype)
  if arr.size > 8:
    raise Unsupported('sum over more than 8 elements (pairwise summation)')
  oshape, out = _reduce(arr, axis, keepdims,
                        lambda xs: _fold2('add', arr.dtype, xs))
  return SymArray(oshape, arr.dtype, out)


def mean(a, axis=None, dtype=None, keepdims=False):
  arr, _ = _operand(a)
  if not B.is_float(arr.dtype):
    raise Unsupported('mean of non-float')
  if arr.dtype == _real_np.dtype('float16'):
    raise Unsupported('mean of float16')
  s = sum_(arr, axis=axis, keepdims=keepdims)
  n = arr.size // max(1, s.size)
  # NumPy: true_divide(sum, count) with count an intp -> cast to the float type
  return binop('div', s, _real_np.array(n, dtype=arr.dtype)[()])


def array_equal(a, b, equal_nan=False):
  if not is_sym(a) and not is_sym(b):
    return _real_np.array_equal(a, b)
  try:
    aa, _ = _operand(a)
    bb, _ = _operand(b)
  except Unsupported:
    raise
  if aa is None or bb is None:
    aa = aa if aa is not None else SymArray.from_numpy(_real_np.asarray(a))
    bb = bb if bb is not None else SymArray.from_numpy(_real_np.asarray(b))
  if aa.shape != bb.shape:
    return False
  r = cmpop('eq', aa, bb)
  terms = []
  for x in r.el:
    if B.is_conc(x):
      if not bool(x):
        return False
    else:
      terms.append(x)
  if not terms:
    return True
  return mkbool(z3.And(*terms))


def isclose(a, b, rtol=1e-05, atol=1e-08, equal_nan=False):
  """NumPy: |a - b| <= atol + rtol * |b| for finite values, equality for
  infinities, False for NaN (equal_nan unsupported)."""
  if not is_sym(a) and not is_sym(b):
    return _real_np.isclose(a, b, rtol=rtol, atol=atol, equal_nan=equal_nan)
  if equal_nan:
    raise Unsupported('isclose(equal_nan=True)')
  aa = a if isinstance(a, SymArray) else SymArray.from_numpy(_real_np.asarray(a))
  bb = b if isinstance(b, SymArray) else SymArray.from_numpy(_real_np.asarray(b))
  diff = unop('abs', binop('sub', aa, bb))
  tol = binop('add', atol, binop('mul', rtol, unop('abs', bb)))
  within = cmpop('le', diff, tol)
  same = cmpop('eq', aa, bb)
  return binop('logical_or', within, same) if 'logical_or' in _BINOPS_BOOL \
      else _bool_or(within, same)


def _bool_or(x, y):
  out = []
  for p, q in zip(x.el, y.el):
    if B.is_conc(p) and B.is_conc(q):
      out.append(bool(p) or bool(q))
    else:
      pz = z3.BoolVal(bool(p)) if B.is_conc(p) else p
      qz = z3.BoolVal(bool(q)) if B.is_conc(q) else q
      out.append(z3.Or(pz, qz))
  return SymArray(x.shape, _real_np.dtype(bool), out)


_BINOPS_BOOL = ()


def allclose(a, b, rtol=1e-05, atol=1e-08, equal_nan=False):
  r = isclose(a, b, rtol=rtol, atol=atol, equal_nan=equal_nan)
  if not isinstance(r, SymArray):
    return bool(_real_np.all(r))
  return all_(r)


def _truthy(dt, x):
  """z3 Bool: element is non-zero (NumPy truthiness)."""
  if B.is_bool(dt):
    return x
  zero = _backend.const(dt, 0)
  if B.is_float(dt):
    return z3.Not(_backend.fcmp('eq', dt, x, zero))
  return x != zero


def all_(a, axis=None):
  arr, _ = _operand(a)
  if axis is not None:
    raise Unsupported('all(axis)')
  terms = []
  for x in arr.el:
    if B.is_conc(x):
      if not bool(x):
        return False
    else:
      terms.append(_truthy(arr.dtype, x))
  if not terms:
    return True
  return mkbool(z3.And(*terms))


def any_(a, axis=None):
  arr, _ = _operand(a)
  if axis is not None:
    raise Unsupported('any(axis)')
  terms = []
  for x in arr.el:
    if B.is_conc(x):
      if bool(x):
        return True
    else:
      terms.append(_truthy(arr.dtype, x))
  if not terms:
    return False
  return mkbool(z3.Or(*terms))


def stack_list(xs):
  """np.array([...]) of equally shaped SymArrays / scalars."""
  items = []
  for x in xs:
    if isinstance(x, (list, tuple)):
      items.append(stack_list(x))
    else:
      arr, weak = _operand(x)
      if arr is None:
        arr = SymArray.from_numpy(_real_np.asarray(weak))
      items.append(arr)
  shp = items[0].shape
  if any(i.shape != shp for i in items):
    raise Unsupported('ragged np.array()')
  dt = _real_np.result_type(*[i.dtype for i in items])
  el = []
  for i in items:
    el.extend(_cast_el(i.dtype, dt, x) for x in i.el)
  return SymArray((len(items),) + shp, dt, el)


def array(obj, dtype=None, **kw):
  if isinstance(obj, SymScalar):
    # np.array(python_scalar): default dtype of the Python type
    dflt = _real_np.dtype('float64') if B.is_float(obj.dtype) else (
        _real_np.dtype('int64') if B.is_int(obj.dtype) else obj.dtype)
    r = astype(SymArray((), obj.dtype, obj.el), dflt)
  elif isinstance(obj, SymArray):
    r = SymArray(obj.shape, obj.dtype, obj.el)
  elif isinstance(obj, (list, tuple)) and is_sym(obj):
    r = stack_list(obj)
  else:
    return _real_np.array(obj, dtype=dtype, **kw)
  if dtype is not None:
    r = astype(r, dtype)
  return r


def asarray(obj, dtype=None, **kw):
  if isinstance(obj, SymArray) and dtype is None:
    return obj
  return array(obj, dtype=dtype)


def frombuffer(buf, dtype=float, count=-1, offset=0):
  dt = _real_np.dtype(dtype)
  if isinstance(buf, SymArray):
    if buf.dtype == dt:
      return buf.flatten()
    buf = buf.tobytes()
  if isinstance(buf, SymBytes):
    if buf.arr.dtype == dt:
      return buf.arr.flatten()
    if dt.itemsize == buf.arr.dtype.itemsize and B.is_int(dt) and B.is_int(
        buf.arr.dtype):
      return SymArray((buf.arr.size,), dt, [
          (_real_np.array(x, dtype=buf.arr.dtype).view(dt)[()]
           if B.is_conc(x) else x) for x in buf.arr.el])
    bs = buf.byte_terms()
    if len(bs) % dt.itemsize:
      raise ValueError('buffer size must be a multiple of element size')
    out = []
    for i in range(0, len(bs), dt.itemsize):
      out.append(_backend.from_bytes(dt, bs[i:i + dt.itemsize]))
    return SymArray((len(out),), dt, [z3.simplify(x) for x in out])
  return _real_np.frombuffer(buf, dtype=dtype, count=count, offset=offset)


def pad(a, pad_width, mode='constant', constant_values=0):
  arr, _ = _operand(a)
  if arr.ndim != 1 or mode != 'constant':
    raise Unsupported('pad other than 1-D constant')
  before, after = pad_width
  c = _weak_el(arr.dtype, constant_values)
  return SymArray((arr.size + before + after,), arr.dtype,
                  [c] * before + arr.el + [c] * after)


def concatenate(arrs, axis=0):
  """1-D concatenation with NumPy's dtype promotion (np.append(arr, 0) with a
  Python int promotes to int64)."""
  items = []
  for x in arrs:
    arr, weak = _operand(x)
    if arr is None:
      arr = SymArray.from_numpy(_real_np.asarray(weak))
    items.append(arr.flatten() if arr.ndim != 1 else arr)
  if axis not in (0, None):
    raise Unsupported('concatenate on axis != 0')
  dt = _real_np.result_type(*[i.dtype for i in items])
  el = []
  for i in items:
    el.extend(_cast_el(i.dtype, dt, x) for x in i.el)
  return SymArray((len(el),), dt, el)


def append(arr, values, axis=None):
  a, _ = _operand(arr)
  v = _real_np.asarray(values) if not isinstance(values, SymArray) else values
  return concatenate([a.flatten(), v if isinstance(v, SymArray)
                      else SymArray.from_numpy(_real_np.ravel(v))])


def left_shift(a, b):
  return binop('lshift', a, b)


def right_shift(a, b):
  return binop('rshift', a, b)


def nan_to_num(a, copy=True, nan=0.0, posinf=None, neginf=None):
  arr, _ = _operand(a)
  dt = arr.dtype
  if not B.is_float(dt):
    return arr
  fi = _real_np.finfo(dt)
  posinf = fi.max if posinf is None else posinf
  neginf = fi.min if neginf is None else neginf
  be = _backend
  out = []
  for x in arr.el:
    if B.is_conc(x):
      out.append(_real_np.nan_to_num(x, nan=nan, posinf=posinf, neginf=neginf))
      continue
    isn = be.fisnan(dt, x)
    isi = be.fisinf(dt, x)
    pos = be.fcmp('gt', dt, x, be.const(dt, 0))
    out.append(z3.If(isn, be.const(dt, nan),
                     z3.If(isi, z3.If(pos, be.const(dt, posinf),
                                      be.const(dt, neginf)), x)))
  return SymArray(arr.shape, dt, out)


def _sort_small(dt, xs):
  """Sorting network via min/max (finite values assumed after nan_to_num)."""
  xs = list(xs)
  n = len(xs)
  be = _backend
  for i in range(n):
    for j in range(n - 1 - i):
      a, b = be.lift(dt, xs[j]), be.lift(dt, xs[j + 1])
      lo = be.fbin('minimum', dt, a, b)
      hi = be.fbin('maximum', dt, a, b)
      xs[j], xs[j + 1] = lo, hi
  return xs


def median(a, axis=None):
  arr, _ = _operand(a)
  # bit-precise sorting networks beyond 5 elements are out of reach for the
  # FP solver; under the term back ends the network is only a term
  limit = 5 if type(_backend).__name__ == 'Bits' else 16
  if axis is not None or arr.size > limit:
    raise Unsupported(f'median(axis) / more than {limit} elements')
  if arr.is_concrete():
    return _real_np.median(arr.to_numpy())
  dt = arr.dtype
  xs = _sort_small(dt, arr.el)
  n = len(xs)
  if n % 2:
    return SymArray((), dt, [xs[n // 2]])
  # NumPy: mean of the two middle elements = (a+b)/2 in the array dtype
  s = binop('add', SymArray((), dt, [xs[n // 2 - 1]]),
            SymArray((), dt, [xs[n // 2]]))
  return binop('div', s, _real_np.array(2, dtype=dt)[()])


def shape(a):
  if isinstance(a, SymArray):
    return a.shape
  return _real_np.shape(a)


def ndim(a):
  if isinstance(a, SymArray):
    return a.ndim
  return _real_np.ndim(a)


def isfinite_terms(arr):
  """z3 conjunction: every element finite (BITS)."""
  be = _backend
  ts = []
  for x in arr.terms():
    ts.append(z3.Not(z3.Or(be.fisnan(arr.dtype, x), be.fisinf(arr.dtype, x))))
  return z3.And(*ts) if ts else z3.BoolVal(True)


_SHIM = {
    'maximum': maximum, 'minimum': minimum, 'clip': clip,
    'abs': lambda a: unop('abs', a), 'absolute': lambda a: unop('abs', a),
    'rint': lambda a: unop('rint', a), 'square': lambda a: unop('square', a),
    'floor': lambda a: unop('floor', a), 'ceil': lambda a: unop('ceil', a),
    'trunc': lambda a: unop('trunc', a), 'round': lambda a, decimals=0: unop('rint', a),
    'around': lambda a, decimals=0: unop('rint', a),
    'negative': lambda a: unop('neg', a),
    'add': lambda a, b: binop('add', a, b),
    'subtract': lambda a, b: binop('sub', a, b),
    'multiply': lambda a, b: binop('mul', a, b),
    'divide': lambda a, b: binop('div', a, b),
    'true_divide': lambda a, b: binop('div', a, b),
    'bitwise_or': lambda a, b: binop('or', a, b),
    'bitwise_and': lambda a, b: binop('and', a, b),
    'left_shift': left_shift, 'right_shift': right_shift,
    'transpose': transpose, 'reshape': reshape, 'expand_dims': expand_dims,
    'squeeze': squeeze, 'zeros_like': zeros_like, 'ones_like': ones_like,
    'min': amin, 'max': amax, 'amin': amin, 'amax': amax, 'mean': mean,
    'sum': sum_, 'array_equal': array_equal, 'array': array,
    'isclose': isclose, 'allclose': allclose,
    'asarray': asarray, 'frombuffer': frombuffer, 'pad': pad,
    'nan_to_num': nan_to_num, 'median': median, 'shape': shape, 'ndim': ndim,
    'all': all_, 'any': any_, 'append': append, 'concatenate': concatenate,
    'hstack': lambda xs: concatenate(xs), 'count_nonzero': lambda a: (_ for _ in ()).throw(Unsupported('count_nonzero')),
}


class _NdarrayMeta(type):
  """`isinstance(x, np.ndarray)` in library code holds for symbolic arrays as
  it does for the NumPy arrays they stand for."""

  def __instancecheck__(cls, obj):
    return isinstance(obj, (_real_np.ndarray, SymArray))

  def __subclasscheck__(cls, sub):
    return issubclass(sub, (_real_np.ndarray, SymArray))


class _Ndarray(metaclass=_NdarrayMeta):
  pass


class NumpyProxy:
  """Stands in for the `np` module global of a repo module."""

  def __init__(self):
    self._cache = {}

  def __getattr__(self, name):
    if name == 'ndarray':
      return _Ndarray
    real = getattr(_real_np, name)
    if name in _SHIM:
      shim = _SHIM[name]

      def dispatch(*args, **kw):
        if any(is_sym(a) or isinstance(a, SymBytes) for a in args) or any(
            is_sym(v) for v in kw.values()):
          return shim(*args, **kw)
        return real(*args, **kw)

      dispatch.__name__ = name
      return dispatch
    if callable(real) and not isinstance(real, type) and name not in (
        'issubdtype', 'iinfo', 'finfo', 'dtype', 'result_type', 'prod',
        'arange', 'zeros', 'ones', 'empty', 'full', 'broadcast_shapes',
        'isscalar', 'can_cast', 'promote_types'):

      def guard(*args, **kw):
        if any(is_sym(a) for a in args) or any(is_sym(v) for v in kw.values()):
          raise Unsupported(f'np.{name} on a symbolic array')
        return real(*args, **kw)

      guard.__name__ = name
      return guard
    return real


PROXY = NumpyProxy()
