"""A Python stand-in for ai_edge_litert.interpreter (the FFI on the calibration
and validation paths), driven by the parsed flatbuffer.

Contract (validated against the real interpreter by the selftest of the
properties that use it): same Python-visible API - names, shapes, dtypes,
quantization_parameters (float32 scales, int32 zero points, quantized
dimension), subgraph selection, signature maps.  What the kernels COMPUTE is
not modelled: every runtime tensor read after an invocation returns a fresh
arbitrary array per (sample id, subgraph, tensor); signature inputs return
the data that was fed; constants return their buffer.
"""
from __future__ import annotations

import numpy as np
from tensorflow.lite.tools import flatbuffer_utils
from ai_edge_litert import schema_py_generated as S

from symx import symnp
from symx.symnp import SymArray

TT = S.TensorType
NP = {TT.FLOAT32: np.float32, TT.FLOAT16: np.float16, TT.INT32: np.int32,
      TT.UINT8: np.uint8, TT.INT64: np.int64, TT.INT16: np.int16,
      TT.INT8: np.int8, TT.BOOL: np.bool_, TT.INT4: np.int8}

# set by the harness before each sample is fed (dataset generator)
STATE = {'sample': 0, 'tag': '', 'content': None}


class OpResolverType:
  AUTO = 0
  BUILTIN = 1
  BUILTIN_REF = 2
  BUILTIN_WITHOUT_DEFAULT_DELEGATES = 3


def _name(t):
  n = t.name
  return n.decode('utf-8') if isinstance(n, (bytes, bytearray)) else str(n)


class _Runner:

  def __init__(self, interp, sig):
    self._interp = interp
    self._sig = sig
    self._subgraph_index = sig.subgraphIndex

  def _details(self, maps):
    sg = self._interp._model.subgraphs[self._subgraph_index]
    out = {}
    for tm in maps or []:
      nm = tm.name.decode() if isinstance(tm.name, bytes) else tm.name
      out[nm] = self._interp._detail(self._subgraph_index, tm.tensorIndex)
    return out

  def get_input_details(self):
    return self._details(self._sig.inputs)

  def get_output_details(self):
    return self._details(self._sig.outputs)

  def __call__(self, **kwargs):
    it = self._interp
    names = {(tm.name.decode() if isinstance(tm.name, bytes) else tm.name):
             tm.tensorIndex for tm in self._sig.inputs or []}
    for k in kwargs:
      if k not in names:
        raise ValueError(f'Invalid Input name ({k}) for SignatureDef')
    it._invocation += 1
    it._since_reset = getattr(it, '_since_reset', 0) + 1
    it._fed = {(self._subgraph_index, names[k]): v for k, v in kwargs.items()}
    it._last = (self._subgraph_index, STATE['sample'])
    it._invoked_subgraphs.add(self._subgraph_index)
    out = {}
    for tm in self._sig.outputs or []:
      nm = tm.name.decode() if isinstance(tm.name, bytes) else tm.name
      out[nm] = it.get_tensor(tm.tensorIndex, self._subgraph_index)
    return out


class Interpreter:
  """content(interp_tag, sample, subgraph, tensor index, name, shape, dtype)
  -> array, supplied through STATE['content'], decides what a runtime tensor
  holds (fresh symbolic by default)."""

  def __init__(self, model_path=None, model_content=None,
               experimental_op_resolver_type=None,
               experimental_preserve_all_tensors=False, **kw):
    if model_content is None:
      with open(model_path, 'rb') as f:
        model_content = f.read()
    self._model = flatbuffer_utils.read_model_from_bytearray(
        bytearray(model_content))
    self._preserve = experimental_preserve_all_tensors
    self._tag = STATE['tag']
    self._allocated = False
    self._invocation = 0
    self._fed = {}
    self._last = None
    self._invoked_subgraphs = set()
    self._cache = {}

  def allocate_tensors(self):
    self._allocated = True

  def reset_all_variables(self):
    self._since_reset = 0

  def get_signature_list(self):
    out = {}
    for sd in self._model.signatureDefs or []:
      k = sd.signatureKey.decode() if isinstance(sd.signatureKey, bytes) \
          else sd.signatureKey
      out[k] = {
          'inputs': [tm.name.decode() if isinstance(tm.name, bytes) else tm.name
                     for tm in sd.inputs or []],
          'outputs': [tm.name.decode() if isinstance(tm.name, bytes)
                      else tm.name for tm in sd.outputs or []]}
    return out

  def get_signature_runner(self, signature_key=None):
    sds = self._model.signatureDefs or []
    if signature_key is None:
      if len(sds) != 1:
        raise ValueError(
            'SignatureDef signature_key is None and model has {0} Signatures. '
            'None is only allowed when the model has 1 SignatureDef'.format(
                len(sds)))
      return _Runner(self, sds[0])
    for sd in sds:
      k = sd.signatureKey.decode() if isinstance(sd.signatureKey, bytes) \
          else sd.signatureKey
      if k == signature_key:
        return _Runner(self, sd)
    raise ValueError(f'Invalid signature_key provided: {signature_key}')

  def _detail(self, si, ti):
    t = self._model.subgraphs[si].tensors[ti]
    q = t.quantization
    scales = np.array([], np.float32)
    zps = np.array([], np.int32)
    qd = 0
    if q is not None and q.scale is not None and len(q.scale):
      scales = np.array([np.float32(x) for x in q.scale], np.float32)
      zps = np.array([int(x) for x in q.zeroPoint], np.int32)
      qd = int(q.quantizedDimension or 0)
    shape = np.array(t.shape if t.shape is not None else [], np.int32)
    return {
        'name': _name(t), 'index': ti, 'shape': shape,
        'shape_signature': shape, 'dtype': NP.get(t.type, np.float32),
        'quantization': (float(scales[0]) if len(scales) == 1 else 0.0,
                         int(zps[0]) if len(zps) == 1 else 0),
        'quantization_parameters': {'scales': scales, 'zero_points': zps,
                                    'quantized_dimension': qd},
        'sparsity_parameters': {},
    }

  def get_tensor_details(self, subgraph_index=0):
    sg = self._model.subgraphs[subgraph_index]
    return [self._detail(subgraph_index, ti) for ti in range(len(sg.tensors))]

  def get_input_details(self):
    return [self._detail(0, i) for i in self._model.subgraphs[0].inputs]

  def get_output_details(self):
    return [self._detail(0, i) for i in self._model.subgraphs[0].outputs]

  def set_tensor(self, index, value):
    self._fed[(0, index)] = value

  def invoke(self):
    self._invocation += 1
    self._since_reset = getattr(self, '_since_reset', 0) + 1
    self._last = (0, STATE['sample'])
    self._invoked_subgraphs.add(0)

  def get_tensor(self, index, subgraph_index=0):
    t = self._model.subgraphs[subgraph_index].tensors[index]
    buf = self._model.buffers[t.buffer]
    dt = NP.get(t.type, np.float32)
    shape = tuple(int(x) for x in (t.shape if t.shape is not None else []))
    if buf.data is not None and len(buf.data):
      if t.type == TT.INT4:
        raise ValueError('int4 constant read not modelled')
      return np.frombuffer(bytes(np.asarray(buf.data, np.uint8)),
                           dtype=dt).reshape(shape).copy()
    if not self._allocated:
      raise ValueError('Tensor data is null. Run allocate_tensors() first')
    if (subgraph_index, index) in self._fed:
      return self._fed[(subgraph_index, index)]
    if subgraph_index not in self._invoked_subgraphs:
      # memory of a subgraph that never ran: arbitrary, but not an error
      sample = ('never', subgraph_index)
    else:
      sample = STATE['sample']
      sg = self._model.subgraphs[subgraph_index]
      if getattr(self, '_since_reset', 1) > 1 and any(
          getattr(tt, 'isVariable', False) for tt in sg.tensors):
        # a stateful subgraph (variable tensors) invoked again without
        # reset_all_variables(): what it computes depends on the earlier runs
        sample = ('stale-state', sample, self._since_reset)
      if not self._preserve and index not in list(sg.inputs) + list(
          sg.outputs):
        # without experimental_preserve_all_tensors the memory planner may
        # reuse an intermediate's slot: what is read back is arbitrary
        sample = ('unpreserved', sample)
    key = (sample, subgraph_index, index)
    if key not in self._cache:
      fn = STATE['content'] or default_content
      self._cache[key] = fn(self._tag, sample, subgraph_index, index,
                            _name(t), shape, np.dtype(dt))
    return self._cache[key]


def default_content(tag, sample, si, ti, name, shape, dtype):
  nm = f'X{tag}_k{sample}_s{si}_t{ti}'.replace("('never', ", 'n').replace(
      ')', '')
  return SymArray.fresh(nm, shape, dtype)


class Module:
  """Stands in for `ai_edge_litert.interpreter` (imported as tfl)."""
  Interpreter = Interpreter
  OpResolverType = OpResolverType
