"""symx: a small dynamic symbolic executor (z3) that runs the real /repo code.

See /verif/DESIGN.md section 0.
"""
