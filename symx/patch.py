"""In-process rebinding of module globals in the real, already imported repo
modules.  The unmodified bytecode of the current /repo source then computes on
whatever the rebound global returns.  Every rebinding is recorded so that the
evidence can list it.
"""
import contextlib
import importlib

from symx import symnp

NP_MODULES = [
    'ai_edge_quantizer.qtyping',
    'ai_edge_quantizer.algorithms.uniform_quantize.uniform_quantize_tensor',
    'ai_edge_quantizer.algorithms.utils.min_max_quantize_utils',
    'ai_edge_quantizer.algorithms.uniform_quantize.naive_min_max_quantize',
    'ai_edge_quantizer.algorithms.nonlinear_quantize.float_casting',
    'ai_edge_quantizer.transformations.quantize_tensor',
    'ai_edge_quantizer.transformations.transformation_utils',
    'ai_edge_quantizer.utils.tfl_flatbuffer_utils',
    'ai_edge_quantizer.utils.calibration_utils',
    'ai_edge_quantizer.utils.validation_utils',
    'ai_edge_quantizer.utils.tfl_interpreter_utils',
    'ai_edge_quantizer.calibrator',
    'ai_edge_quantizer.model_modifier',
    'ai_edge_quantizer.model_validator',
]

REBOUND = []


@contextlib.contextmanager
def rebind(module_name, attr, value):
  mod = importlib.import_module(module_name)
  missing = object()
  old = getattr(mod, attr, missing)
  setattr(mod, attr, value)
  rec = f'{module_name}.{attr}'
  if rec not in REBOUND:
    REBOUND.append(rec)
  try:
    yield mod
  finally:
    if old is missing:
      delattr(mod, attr)
    else:
      setattr(mod, attr, old)


def np_modules():
  """NP_MODULES plus every other loaded library module of the working tree
  whose global `np` is NumPy (a change that starts using NumPy in a module
  that did not is then executed symbolically too)."""
  import sys
  import numpy as real_np
  out = list(NP_MODULES)
  for n, m in sorted(sys.modules.items()):
    if (n.startswith('ai_edge_quantizer') and m is not None
        and (getattr(m, '__file__', None) or '').startswith('/repo/')
        and n not in out and not n.endswith('_test')
        and not n.endswith('test_utils') and '.examples.' not in n
        and getattr(m, 'np', None) is real_np):
      out.append(n)
  return out


@contextlib.contextmanager
def symbolic_numpy(modules=None):
  with contextlib.ExitStack() as st:
    for m in modules or np_modules():
      st.enter_context(rebind(m, 'np', symnp.PROXY))
    yield


# ---------------------------------------------------------------------------
# model of "a fresh process": process-wide mutable state of the repo's modules
# (module globals, class attributes and singleton attributes that are
# dict/list/set/bytearray containers, functools caches) is captured once,
# right after import, and put back on demand.  Whatever a call history left
# behind in such state is gone afterwards, exactly as in a new interpreter.
# ---------------------------------------------------------------------------
_PRISTINE = None
_CONTAINERS = (dict, list, set, bytearray)


def _repo_modules():
  import sys
  return [m for n, m in sorted(sys.modules.items())
          if n.startswith('ai_edge_quantizer') and m is not None
          and (getattr(m, '__file__', None) or '').startswith('/repo/')]


def _copy1(v):
  return type(v)(v)


def _holders():
  """(holder, attribute name) pairs whose value is a mutable container."""
  seen, out = set(), []
  for m in _repo_modules():
    for name, v in list(vars(m).items()):
      if name.startswith('__'):
        continue
      if isinstance(v, _CONTAINERS):
        out.append((m, name))
      elif isinstance(v, type) and getattr(v, '__module__', '') == m.__name__:
        for an, av in list(vars(v).items()):
          if isinstance(av, _CONTAINERS) and not an.startswith('__'):
            out.append((v, an))
      elif (type(v).__module__ or '').startswith('ai_edge_quantizer') and \
          hasattr(v, '__dict__') and not isinstance(v, type) and \
          id(v) not in seen and not callable(v):
        seen.add(id(v))
        for an, av in list(vars(v).items()):
          if isinstance(av, _CONTAINERS):
            out.append((v, an))
  return out


def snapshot_process_state():
  """Call once, before any repo API call of the check."""
  global _PRISTINE
  if _PRISTINE is None:
    _PRISTINE = [(h, n, getattr(h, n), _copy1(getattr(h, n)))
                 for h, n in _holders()]
  return len(_PRISTINE)


def fresh_process_state():
  """Put every captured container back to its import-time content (same
  object, so aliases held elsewhere see it too), empty containers that did
  not exist at import time, clear functools caches."""
  snapshot_process_state()
  known = set()
  for h, n, obj, content in _PRISTINE:
    known.add((id(h), n))
    if isinstance(obj, dict):
      obj.clear()
      obj.update(content)
    elif isinstance(obj, set):
      obj.clear()
      obj.update(content)
    else:
      obj[:] = content
    try:
      setattr(h, n, obj)
    except (AttributeError, TypeError):
      pass
  for h, n in _holders():
    if (id(h), n) not in known:
      v = getattr(h, n)
      if isinstance(v, (dict, set)):
        v.clear()
      else:
        del v[:]
  import functools
  for m in _repo_modules():
    for v in list(vars(m).values()):
      for f in [v] + ([x for x in vars(v).values()] if isinstance(v, type)
                      and getattr(v, '__module__', '') == m.__name__ else []):
        f = getattr(f, '__func__', f)
        cc = getattr(f, 'cache_clear', None)
        if callable(cc):
          cc()
