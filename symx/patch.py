"""In-process rebinding of module globals in the real, already imported repo
modules.  The unmodified bytecode of the current /repo source then computes on
whatever the rebound global returns.  Every rebinding is recorded so that the
evidence can list it.
"""
import contextlib
import importlib

from symx import symnp

NP_MODULES = [
    'ai_edge_quantizer.qtyping',
    'ai_edge_quantizer.algorithms.uniform_quantize.uniform_quantize_tensor',
    'ai_edge_quantizer.algorithms.utils.min_max_quantize_utils',
    'ai_edge_quantizer.algorithms.uniform_quantize.naive_min_max_quantize',
    'ai_edge_quantizer.algorithms.nonlinear_quantize.float_casting',
    'ai_edge_quantizer.transformations.quantize_tensor',
    'ai_edge_quantizer.transformations.transformation_utils',
    'ai_edge_quantizer.utils.tfl_flatbuffer_utils',
    'ai_edge_quantizer.utils.calibration_utils',
    'ai_edge_quantizer.utils.validation_utils',
    'ai_edge_quantizer.utils.tfl_interpreter_utils',
    'ai_edge_quantizer.calibrator',
    'ai_edge_quantizer.model_modifier',
    'ai_edge_quantizer.model_validator',
]

REBOUND = []


@contextlib.contextmanager
def rebind(module_name, attr, value):
  mod = importlib.import_module(module_name)
  missing = object()
  old = getattr(mod, attr, missing)
  setattr(mod, attr, value)
  rec = f'{module_name}.{attr}'
  if rec not in REBOUND:
    REBOUND.append(rec)
  try:
    yield mod
  finally:
    if old is missing:
      delattr(mod, attr)
    else:
      setattr(mod, attr, old)


@contextlib.contextmanager
def symbolic_numpy(modules=None):
  with contextlib.ExitStack() as st:
    for m in modules or NP_MODULES:
      st.enter_context(rebind(m, 'np', symnp.PROXY))
    yield
