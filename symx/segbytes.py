"""Symbolic byte strings as a list of labelled segments with SymInt lengths.

Used by C16: the code under test only concatenates (`+=`) and asks `len()`
(through the rebound module-level `len`)."""
import builtins
import z3
from symx.core import SymInt, mkint, Unsupported


class SegBytes:

  def __init__(self, segs=()):
    self.segs = list(segs)  # (label, length: int | SymInt)

  def sym_len(self):
    tot = 0
    for _, n in self.segs:
      tot = tot + n
    return tot

  def __iadd__(self, other):
    return self.__add__(other)

  def __add__(self, other):
    if isinstance(other, SegBytes):
      return SegBytes(self.segs + other.segs)
    if isinstance(other, (bytes, bytearray)):
      if any(other):
        lab = 'lit'
      else:
        lab = 'pad'
      return SegBytes(self.segs + [(lab, builtins.len(other))])
    return NotImplemented

  def extend(self, other):
    r = self.__add__(other)
    if r is NotImplemented:
      raise TypeError('extend with unsupported operand')
    self.segs = r.segs

  def copy(self):
    return SegBytes(self.segs)

  def __len__(self):
    raise Unsupported('builtin len() on symbolic bytes (module len not rebound)')

  def position_of(self, label):
    pos = 0
    for lab, n in self.segs:
      if lab == label:
        return pos, n
      pos = pos + n
    return None

  def labels(self):
    return [l for l, _ in self.segs]

  def __deepcopy__(self, memo):
    return self


def symlen(x):
  if isinstance(x, SegBytes):
    return x.sym_len()
  return builtins.len(x)


def symbytearray(x=b''):
  """Stands in for module-level bytearray(): a mutable copy."""
  if isinstance(x, SegBytes):
    return SegBytes(x.segs)
  return bytearray(x)


def symbytes(x=b''):
  if isinstance(x, SegBytes):
    return SegBytes(x.segs)
  return bytes(x)
