"""Symbolic byte strings as a list of labelled segments with SymInt lengths.

Used by C16: the code under test only concatenates (`+=`) and asks `len()`
(through the rebound module-level `len`)."""
import builtins
import z3
from symx.core import SymInt, mkint, Unsupported


class SegBytes:

  def __init__(self, segs=()):
    self.segs = list(segs)  # (label, length: int | SymInt)

  def sym_len(self):
    tot = 0
    for _, n in self.segs:
      tot = tot + n
    return tot

  def __iadd__(self, other):
    return self.__add__(other)

  def __add__(self, other):
    if isinstance(other, SegBytes):
      return SegBytes(self.segs + other.segs)
    if isinstance(other, (bytes, bytearray)):
      if any(other):
        lab = 'lit'
      else:
        lab = 'pad'
      return SegBytes(self.segs + [(lab, builtins.len(other))])
    return NotImplemented

  def extend(self, other):
    r = self.__add__(other)
    if r is NotImplemented:
      raise TypeError('extend with unsupported operand')
    self.segs = r.segs

  def copy(self):
    return SegBytes(self.segs)

  def __len__(self):
    raise Unsupported('builtin len() on symbolic bytes (module len not rebound)')

  def position_of(self, label):
    pos = 0
    for lab, n in self.segs:
      if lab == label:
        return pos, n
      pos = pos + n
    return None

  def labels(self):
    return [l for l, _ in self.segs]

  def __deepcopy__(self, memo):
    return self

  # content equality (dict keys, ==): two different single-segment constants
  # MAY hold the same bytes - a free Boolean per pair, which implies equal
  # lengths; everything else compares by structure
  def __hash__(self):
    return 11

  def __eq__(self, other):
    if not isinstance(other, SegBytes):
      return False
    if [l for l, _ in self.segs] == [l for l, _ in other.segs]:
      return True
    if len(self.segs) == 1 and len(other.segs) == 1 and all(
        str(sg.segs[0][0]).startswith('buf_') for sg in (self, other)):
      from symx.core import engine, mkbool, SymInt as _SI
      a, b = sorted([self.segs[0][0], other.segs[0][0]])
      name = f'same_content_{a}_{b}'
      e = engine()
      v = z3.Bool(name)
      if name not in e.inputs:
        e.register_input(name, v)

      def zl(n):
        return n.z if isinstance(n, _SI) else z3.IntVal(int(n))
      return mkbool(z3.And(v, zl(self.segs[0][1]) == zl(other.segs[0][1])))
    return False

  def __ne__(self, other):
    r = self.__eq__(other)
    return (not r) if isinstance(r, bool) else ~r


def symlen(x):
  if isinstance(x, SegBytes):
    return x.sym_len()
  return builtins.len(x)


def symbytearray(x=b''):
  """Stands in for module-level bytearray(): a mutable copy."""
  if isinstance(x, SegBytes):
    return SegBytes(x.segs)
  return bytearray(x)


def symbytes(x=b''):
  if isinstance(x, SegBytes):
    return SegBytes(x.segs)
  return bytes(x)
