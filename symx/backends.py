"""Element back ends for the symbolic NumPy shim (see DESIGN.md section 0).

An element is either a concrete NumPy scalar (constant folding with real NumPy,
this is also the CONC back end used for translator validation) or a z3 term.

BITS  floats = IEEE-754 FloatingPoint terms, ints = two's complement BitVec.
UF    float leaves keep their FloatingPoint sort, float *operations* are
      uninterpreted functions (decided by congruence); ints as in BITS.
RERR  floats = Reals with the standard rounding-error model, ints = Int.
"""
from __future__ import annotations

import warnings
import numpy as np
import z3

from symx.core import Unsupported, engine

RNE = z3.RNE()
RTZ = z3.RTZ()

_FP = {
    np.dtype('float16'): z3.Float16(),
    np.dtype('float32'): z3.Float32(),
    np.dtype('float64'): z3.Float64(),
}


def is_float(dt):
  return dt.kind == 'f'


def is_int(dt):
  return dt.kind in 'iu'


def is_bool(dt):
  return dt.kind == 'b'


def is_conc(x):
  return not z3.is_expr(x)


def np_scalar(dt, v):
  with warnings.catch_warnings():
    warnings.simplefilter('ignore')
    return np.array(v).astype(dt)[()]


class CastObligation:
  """Side condition: a float->int cast whose operand must be in range."""

  def __init__(self, cond, what):
    self.cond = cond
    self.what = what


class Base:
  name = 'BASE'

  def __init__(self):
    self.side = []  # list[CastObligation]
    self.fresh_eps = []

  def reset(self):
    self.side = []
    self.fresh_eps = []

  # -- sorts / constants
  def sort(self, dt):
    raise NotImplementedError

  def const(self, dt, v):
    raise NotImplementedError

  def lift(self, dt, x):
    return self.const(dt, x) if is_conc(x) else x

  def var(self, name, dt):
    return z3.Const(name, self.sort(dt))


def _bv_width(dt):
  return dt.itemsize * 8


def _signed(dt):
  return dt.kind == 'i'


class Bits(Base):
  name = 'BITS'

  def sort(self, dt):
    if is_float(dt):
      return _FP[dt]
    if is_int(dt):
      return z3.BitVecSort(_bv_width(dt))
    if is_bool(dt):
      return z3.BoolSort()
    raise Unsupported(f'dtype {dt}')

  def const(self, dt, v):
    if is_float(dt):
      s = _FP[dt]
      v = np_scalar(dt, v)
      if np.isnan(v):
        return z3.fpNaN(s)
      if np.isinf(v):
        return z3.fpPlusInfinity(s) if v > 0 else z3.fpMinusInfinity(s)
      # exact: go through the bit pattern
      u = {2: np.uint16, 4: np.uint32, 8: np.uint64}[dt.itemsize]
      bits = int(np.array(v, dtype=dt).view(u))
      return z3.fpBVToFP(z3.BitVecVal(bits, dt.itemsize * 8), s)
    if is_int(dt):
      return z3.BitVecVal(int(v), _bv_width(dt))
    if is_bool(dt):
      return z3.BoolVal(bool(v))
    raise Unsupported(f'dtype {dt}')

  # -- float ops
  def fbin(self, op, dt, a, b):
    if op == 'add':
      return z3.fpAdd(RNE, a, b)
    if op == 'sub':
      return z3.fpSub(RNE, a, b)
    if op == 'mul':
      return z3.fpMul(RNE, a, b)
    if op == 'div':
      return z3.fpDiv(RNE, a, b)
    if op == 'maximum':
      # NumPy: (a >= b || isnan(a)) ? a : b
      return z3.If(z3.Or(z3.fpGEQ(a, b), z3.fpIsNaN(a)), a, b)
    if op == 'minimum':
      return z3.If(z3.Or(z3.fpLEQ(a, b), z3.fpIsNaN(a)), a, b)
    raise Unsupported(f'float binop {op}')

  def fun(self, op, dt, a):
    if op == 'abs':
      return z3.fpAbs(a)
    if op == 'neg':
      return z3.fpNeg(a)
    if op == 'rint':
      return z3.fpRoundToIntegral(RNE, a)
    if op == 'floor':
      return z3.fpRoundToIntegral(z3.RTN(), a)
    if op == 'ceil':
      return z3.fpRoundToIntegral(z3.RTP(), a)
    if op == 'trunc':
      return z3.fpRoundToIntegral(RTZ, a)
    if op == 'square':
      return z3.fpMul(RNE, a, a)
    raise Unsupported(f'float unop {op}')

  def fcmp(self, op, dt, a, b):
    return {
        'lt': z3.fpLT, 'le': z3.fpLEQ, 'gt': z3.fpGT, 'ge': z3.fpGEQ,
        'eq': z3.fpEQ, 'ne': lambda x, y: z3.Not(z3.fpEQ(x, y)),
    }[op](a, b)

  def fisnan(self, dt, a):
    return z3.fpIsNaN(a)

  def fisinf(self, dt, a):
    return z3.fpIsInf(a)

  def fispos(self, dt, a):
    return z3.fpIsPositive(a)

  # -- int ops
  def ibin(self, op, dt, a, b):
    s = _signed(dt)
    if op == 'add':
      return a + b
    if op == 'sub':
      return a - b
    if op == 'mul':
      return a * b
    if op == 'and':
      return a & b
    if op == 'or':
      return a | b
    if op == 'xor':
      return a ^ b
    if op == 'lshift':
      return a << b
    if op == 'rshift':
      return (a >> b) if s else z3.LShR(a, b)
    if op == 'maximum':
      return z3.If((a >= b) if s else z3.UGE(a, b), a, b)
    if op == 'minimum':
      return z3.If((a <= b) if s else z3.ULE(a, b), a, b)
    raise Unsupported(f'int binop {op}')

  def iun(self, op, dt, a):
    if op == 'neg':
      return -a
    if op == 'abs':
      return z3.If(a < 0, -a, a) if _signed(dt) else a
    if op == 'square':
      return a * a
    if op == 'invert':
      return ~a
    raise Unsupported(f'int unop {op}')

  def icmp(self, op, dt, a, b):
    s = _signed(dt)
    if op == 'eq':
      return a == b
    if op == 'ne':
      return a != b
    if s:
      return {'lt': a < b, 'le': a <= b, 'gt': a > b, 'ge': a >= b}[op]
    return {'lt': z3.ULT(a, b), 'le': z3.ULE(a, b), 'gt': z3.UGT(a, b),
            'ge': z3.UGE(a, b)}[op]

  # -- casts
  def cast(self, src, dst, a):
    if src == dst:
      return a
    if is_float(src) and is_float(dst):
      return z3.fpFPToFP(RNE, a, _FP[dst])
    if is_int(src) and is_float(dst):
      if _signed(src):
        return z3.fpSignedToFP(RNE, a, _FP[dst])
      return z3.fpUnsignedToFP(RNE, a, _FP[dst])
    if is_bool(src) and is_float(dst):
      return z3.If(a, self.const(dst, 1), self.const(dst, 0))
    if is_bool(src) and is_int(dst):
      return z3.If(a, self.const(dst, 1), self.const(dst, 0))
    if is_int(src) and is_int(dst):
      ws, wd = _bv_width(src), _bv_width(dst)
      if wd == ws:
        return a
      if wd < ws:
        return z3.Extract(wd - 1, 0, a)
      return z3.SignExt(wd - ws, a) if _signed(src) else z3.ZeroExt(wd - ws, a)
    if is_float(src) and is_int(dst):
      return self._f2i(src, dst, a)
    raise Unsupported(f'cast {src}->{dst}')

  def _f2i(self, src, dst, a):
    """C cast as compiled on x86-64 (cvtt*2si), plus an in-range obligation.

    In range the result is the truncation; out of range / NaN the C cast is
    undefined behaviour -- the shim returns the "integer indefinite" value the
    hardware produces and records the side condition so that a harness can
    assert it never happens (replay on real NumPy arbitrates).
    """
    wd = _bv_width(dst)
    wi = 64 if wd == 64 or (wd == 32 and not _signed(dst)) else 32
    s = _FP[src]
    lo = z3.fpSignedToFP(RTZ, z3.BitVecVal(-(2 ** (wi - 1)), wi + 1), s)
    hi = z3.fpSignedToFP(RTZ, z3.BitVecVal(2 ** (wi - 1), wi + 1), s)
    t = z3.fpRoundToIntegral(RTZ, a)
    inr = z3.And(z3.Not(z3.fpIsNaN(a)), z3.fpGEQ(t, lo), z3.fpLT(t, hi))
    wide = z3.If(inr, z3.fpToSBV(RTZ, a, z3.BitVecSort(wi)),
                 z3.BitVecVal(-(2 ** (wi - 1)), wi))
    # obligation: value fits the *destination* type
    dlo = -(2 ** (wd - 1)) if _signed(dst) else 0
    dhi = 2 ** (wd - 1) - 1 if _signed(dst) else 2 ** wd - 1
    flo = z3.fpSignedToFP(RTZ, z3.BitVecVal(dlo, wd + 2), s)
    fhi = z3.fpSignedToFP(RTZ, z3.BitVecVal(dhi, wd + 2), s)
    self.side.append(CastObligation(
        z3.And(z3.Not(z3.fpIsNaN(a)), z3.fpGEQ(t, flo), z3.fpLEQ(t, fhi)),
        f'{src}->{dst}'))
    if wd == wi:
      return wide
    return z3.Extract(wd - 1, 0, wide)

  # -- equality used by array_equal / ==
  def eq(self, dt, a, b):
    if is_float(dt):
      return z3.fpEQ(a, b)
    return a == b

  # -- bytes (little endian list of BitVec(8)), BITS/UF only
  def to_bytes(self, dt, a):
    w = dt.itemsize * 8
    if is_float(dt):
      bv = z3.fpToIEEEBV(a)
    elif is_bool(dt):
      bv = z3.If(a, z3.BitVecVal(1, 8), z3.BitVecVal(0, 8))
    else:
      bv = a
    return [z3.Extract(8 * i + 7, 8 * i, bv) for i in range(w // 8)]

  def from_bytes(self, dt, bs):
    bv = z3.Concat(*reversed(bs)) if len(bs) > 1 else bs[0]
    if is_float(dt):
      return z3.fpBVToFP(bv, _FP[dt])
    if is_bool(dt):
      return bv != 0
    return bv


class UF(Bits):
  """Float operations uninterpreted; leaves, ints and byte layout as BITS."""
  name = 'UF'

  def _f(self, name, dt, *sorts_and_ret):
    return z3.Function(f'{name}_{dt.name}', *sorts_and_ret)

  def fbin(self, op, dt, a, b):
    s = _FP[dt]
    if op in ('add', 'mul') and a.hash() > b.hash():
      a, b = b, a  # commutative: canonical order by structural hash (ids are
                   # recycled by z3's garbage collection, hashes are not)
    return self._f('f' + op, dt, s, s, s)(a, b)

  def fun(self, op, dt, a):
    s = _FP[dt]
    return self._f('f' + op, dt, s, s)(a)

  def fcmp(self, op, dt, a, b):
    if op == 'eq':
      return a == b
    if op == 'ne':
      return a != b
    s = _FP[dt]
    return self._f('f' + op, dt, s, s, z3.BoolSort())(a, b)

  def fisnan(self, dt, a):
    return self._f('fisnan', dt, _FP[dt], z3.BoolSort())(a)

  def fisinf(self, dt, a):
    return self._f('fisinf', dt, _FP[dt], z3.BoolSort())(a)

  def cast(self, src, dst, a):
    if src == dst:
      return a
    if is_float(src) or is_float(dst):
      if is_bool(src):
        return z3.If(a, self.const(dst, 1), self.const(dst, 0))
      f = z3.Function(f'cast_{src.name}_{dst.name}', self.sort(src),
                      self.sort(dst))
      return f(a)
    return super().cast(src, dst, a)

  def eq(self, dt, a, b):
    return a == b


def _real_as_int(a):
  """If the Real term a is an If-tree over ToReal(int)/integral numerals,
  returns the equivalent Int term, else None."""
  if z3.is_app(a) and a.decl().kind() == z3.Z3_OP_TO_REAL:
    return a.arg(0)
  if z3.is_rational_value(a):
    if a.denominator_as_long() == 1:
      return z3.IntVal(a.numerator_as_long())
    return None
  if z3.is_app(a) and a.decl().kind() == z3.Z3_OP_ITE:
    x, y = _real_as_int(a.arg(1)), _real_as_int(a.arg(2))
    if x is None or y is None:
      return None
    return z3.If(a.arg(0), x, y)
  return None


class RErr(Base):
  """Reals with the standard model of floating-point rounding.

  fl(v) = v(1+e), |e| <= u          when |v| >= min normal
        = v + h, |h| <= ulp_denorm/2 otherwise
  Each rounding introduces fresh e/h variables (registered as assumptions on
  the engine).  rint/astype(int) map to Int terms with |r - x| <= 1/2 and ties
  unconstrained beyond that (sound over-approximation of ties-to-even).
  Sound for finite, non-overflowing values only: every operation also records
  an obligation that the exact result is below the dtype's max.
  """
  name = 'RERR'
  U = {np.dtype('float16'): (z3.Q(1, 2 ** 11), z3.Q(1, 2 ** 14), z3.Q(1, 2 ** 25), 65504),
       np.dtype('float32'): (z3.Q(1, 2 ** 24), z3.Q(1, 2 ** 126), z3.Q(1, 2 ** 150), None),
       np.dtype('float64'): (z3.Q(1, 2 ** 53), z3.Q(1, 2 ** 1022), z3.Q(1, 2 ** 1075), None)}
  FMAX = {np.dtype('float16'): z3.RealVal(65504),
          np.dtype('float32'): z3.RealVal(int(np.finfo(np.float32).max)),
          np.dtype('float64'): z3.RealVal(int(np.finfo(np.float64).max))}

  def __init__(self, underflow=True):
    super().__init__()
    self.underflow = underflow
    self.sites = []   # (dtype, exact value, rounded value)
    self.rints = []   # (operand, result)

  def reset(self):
    super().reset()
    self.sites = []
    self.rints = []

  def monotone_axioms(self):
    """Rounding and rint are monotone non-decreasing functions of the exact
    value (and deterministic): sound extra facts linking paired sites."""
    ax = []
    for group in (self.sites, [(None, a, r) for a, r in self.rints]):
      for i in range(len(group)):
        for j in range(i + 1, len(group)):
          di, vi, ri = group[i]
          dj, vj, rj = group[j]
          if di != dj:
            continue
          ax.append(z3.Implies(vi <= vj, ri <= rj))
          ax.append(z3.Implies(vj <= vi, rj <= ri))
    return z3.And(*ax) if ax else z3.BoolVal(True)

  def sort(self, dt):
    if is_float(dt):
      return z3.RealSort()
    if is_int(dt):
      return z3.IntSort()
    if is_bool(dt):
      return z3.BoolSort()
    raise Unsupported(f'dtype {dt}')

  def const(self, dt, v):
    if is_float(dt):
      v = np_scalar(dt, v)
      if not np.isfinite(v):
        raise Unsupported('non-finite constant in RERR')
      import fractions
      fr = fractions.Fraction(float(v))
      return z3.Q(fr.numerator, fr.denominator)
    if is_int(dt):
      return z3.IntVal(int(v))
    return z3.BoolVal(bool(v))

  def _round(self, dt, v):
    """fl(v)."""
    u, minnorm, eta, _ = self.U[dt]
    e = engine()
    eps = z3.Real(e.fresh_name('eps'))
    e._add(z3.And(eps >= -u, eps <= u))
    self.side.append(CastObligation(
        z3.And(v <= self.FMAX[dt], v >= -self.FMAX[dt]), f'overflow {dt}'))
    if not self.underflow:
      r = v * (1 + eps)
    else:
      h = z3.Real(e.fresh_name('eta'))
      e._add(z3.And(h >= -eta, h <= eta))
      absv = z3.If(v >= 0, v, -v)
      r = z3.If(absv >= minnorm, v * (1 + eps), v + h)
    self.sites.append((dt, v, r))
    return r

  def fbin(self, op, dt, a, b):
    if op == 'add':
      return self._round(dt, a + b)
    if op == 'sub':
      return self._round(dt, a - b)
    if op == 'mul':
      return self._round(dt, a * b)
    if op == 'div':
      return self._round(dt, a / b)
    if op == 'maximum':
      return z3.If(a >= b, a, b)
    if op == 'minimum':
      return z3.If(a <= b, a, b)
    raise Unsupported(f'float binop {op}')

  def fun(self, op, dt, a):
    if op == 'abs':
      return z3.If(a >= 0, a, -a)
    if op == 'neg':
      return -a
    if op == 'rint':
      e = engine()
      r = z3.Int(e.fresh_name('rint'))
      rr = z3.ToReal(r)
      e._add(z3.And(rr - a <= z3.Q(1, 2), a - rr <= z3.Q(1, 2)))
      self.rints.append((a, rr))
      return rr
    if op in ('floor', 'ceil', 'trunc'):
      e = engine()
      r = z3.Int(e.fresh_name(op))
      rr = z3.ToReal(r)
      fl = z3.And(rr <= a, a < rr + 1)
      ce = z3.And(rr >= a, a > rr - 1)
      e._add({'floor': fl, 'ceil': ce,
              'trunc': z3.If(a >= 0, fl, ce)}[op])
      self.rints.append((a, rr))
      return rr
    if op == 'square':
      return self._round(dt, a * a)
    raise Unsupported(f'float unop {op}')

  def fcmp(self, op, dt, a, b):
    return {'lt': a < b, 'le': a <= b, 'gt': a > b, 'ge': a >= b,
            'eq': a == b, 'ne': a != b}[op]

  def fisnan(self, dt, a):
    return z3.BoolVal(False)

  def fisinf(self, dt, a):
    return z3.BoolVal(False)

  def ibin(self, op, dt, a, b):
    if op == 'add':
      r = a + b
    elif op == 'sub':
      r = a - b
    elif op == 'mul':
      r = a * b
    elif op == 'maximum':
      return z3.If(a >= b, a, b)
    elif op == 'minimum':
      return z3.If(a <= b, a, b)
    else:
      raise Unsupported(f'int binop {op} in RERR')
    self._int_range(dt, r)
    return r

  def _int_range(self, dt, r):
    info = np.iinfo(dt)
    self.side.append(CastObligation(
        z3.And(r >= int(info.min), r <= int(info.max)), f'int overflow {dt}'))

  def iun(self, op, dt, a):
    if op == 'neg':
      return -a
    if op == 'abs':
      return z3.If(a >= 0, a, -a)
    raise Unsupported(f'int unop {op} in RERR')

  def icmp(self, op, dt, a, b):
    return {'lt': a < b, 'le': a <= b, 'gt': a > b, 'ge': a >= b,
            'eq': a == b, 'ne': a != b}[op]

  def cast(self, src, dst, a):
    if src == dst:
      return a
    if is_float(src) and is_float(dst):
      if dst.itemsize >= src.itemsize:
        return a
      return self._round(dst, a)
    if is_int(src) and is_float(dst):
      # exact when |a| < 2^p; otherwise rounded
      p = {2: 11, 4: 24, 8: 53}[dst.itemsize]
      if src.itemsize * 8 <= p:
        return z3.ToReal(a)
      return self._round(dst, z3.ToReal(a))
    if is_int(src) and is_int(dst):
      self._int_range(dst, a)
      return a
    if is_float(src) and is_int(dst):
      ia = _real_as_int(a)
      if ia is not None:
        # operand is syntactically integral (rint / clip of rint / constants)
        self._int_range(dst, ia)
        return ia
      e = engine()
      r = z3.Int(e.fresh_name('trunc'))
      rr = z3.ToReal(r)
      # truncation toward zero
      e._add(z3.If(a >= 0, z3.And(rr <= a, a - rr < 1),
                   z3.And(rr >= a, rr - a < 1)))
      self._int_range(dst, r)
      return r
    if is_bool(src):
      return z3.If(a, self.const(dst, 1), self.const(dst, 0))
    raise Unsupported(f'cast {src}->{dst}')

  def eq(self, dt, a, b):
    return a == b

  def to_bytes(self, dt, a):
    raise Unsupported('byte view in RERR')

  def from_bytes(self, dt, bs):
    raise Unsupported('byte view in RERR')
