"""Independent decoder of TFLite constant storage (written from the TFLite
schema / quantization spec, not from the repo)."""
import numpy as np
from ai_edge_litert import schema_py_generated as S

TT = S.TensorType
ITEMSIZE = {TT.FLOAT32: 4, TT.FLOAT16: 2, TT.INT8: 1, TT.UINT8: 1, TT.INT16: 2,
            TT.INT32: 4, TT.INT64: 8}
NPTYPE = {TT.FLOAT32: np.float32, TT.FLOAT16: np.float16, TT.INT8: np.int8,
          TT.UINT8: np.uint8, TT.INT16: np.int16, TT.INT32: np.int32,
          TT.INT64: np.int64}


def numel(shape):
  n = 1
  for s in (shape if shape is not None else []):
    n *= int(s)
  return n


def expected_nbytes(ttype, shape):
  n = numel(shape)
  if ttype == TT.INT4:
    return (n + 1) // 2
  return n * ITEMSIZE[ttype]


def decode(raw: bytes, ttype, shape):
  """bytes -> integer/float ndarray of the tensor's logical values."""
  n = numel(shape)
  if ttype == TT.INT4:
    b = np.frombuffer(raw, dtype=np.uint8)
    lo = (b & 0x0F).astype(np.int16)
    hi = ((b >> 4) & 0x0F).astype(np.int16)
    vals = np.empty(2 * len(b), dtype=np.int16)
    vals[0::2] = lo  # low nibble first
    vals[1::2] = hi
    vals = np.where(vals >= 8, vals - 16, vals)  # sign-extend 4 bits
    return vals[:n].astype(np.int8).reshape(shape)
  return np.frombuffer(raw, dtype=np.dtype(NPTYPE[ttype]).newbyteorder('<'))[
      :n].reshape(shape)


def dequantize(q, scale, zero_point, qdim, shape):
  """Per the TFLite spec: real = scale[c] * (q - zp[c]) along qdim."""
  scale = np.asarray(scale, dtype=np.float64).reshape(-1)
  zp = np.asarray(zero_point, dtype=np.int64).reshape(-1)
  q = np.asarray(q).astype(np.int64)
  if len(scale) == 1:
    return (q - zp[0]) * scale[0]
  bshape = [1] * len(shape)
  bshape[qdim] = len(scale)
  return (q - zp.reshape(bshape)) * scale.reshape(bshape)
