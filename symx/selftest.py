"""Translator validation: the shim against real NumPy (bit for bit), the fake
interpreter against the real interpreter's Python-visible contract."""
from __future__ import annotations

import glob
import os
import warnings
import numpy as np
import z3

from symx import backends as B
from symx import symnp
from symx.symnp import SymArray

MODELS = '/repo/ai_edge_quantizer/tests/models'


def _corpus(dtype, rng):
  if np.dtype(dtype).kind == 'f':
    base = [0.0, -0.0, 1.0, -1.0, 0.5, 1.5, 2.5, -2.5, 1e-4, 127.49, 127.5,
            -128.5, 3e38, -3e38, 1e-45, 6e-8, np.inf, -np.inf, np.nan,
            65504.0, 1 / 256, 255.0, 32767.5]
    arr = np.array(base + list(rng.normal(size=9) * 50), dtype=dtype)
  else:
    info = np.iinfo(dtype)
    arr = np.array([0, 1, -1 if info.min < 0 else 2, info.min, info.max,
                    info.max - 1, 7, 8, 15, 16] + list(
                        rng.integers(info.min, info.max, size=6)),
                   dtype=dtype)
  return arr


def _same(a, b):
  a, b = np.asarray(a), np.asarray(b)
  if a.dtype != b.dtype or a.shape != b.shape:
    return False
  if a.tobytes() == b.tobytes():
    return True
  if a.dtype.kind != 'f':
    return False
  # NaNs compare equal whatever their sign/payload; everything else bitwise
  na, nb = np.isnan(a), np.isnan(b)
  return bool(np.array_equal(na, nb) and np.array_equal(
      np.where(na, 0, a).tobytes(), np.where(nb, 0, b).tobytes()))


def _bits_eval(arr_sym):
  """Evaluates a SymArray of z3 constants to NumPy via z3 simplify."""
  out = []
  for x in arr_sym.terms():
    v = z3.simplify(x)
    dt = arr_sym.dtype
    if dt.kind == 'f':
      bv = z3.simplify(z3.fpToIEEEBV(v))
      if z3.is_fp_value(v) and v.isNaN():
        out.append(np.nan)
        continue
      u = {2: np.uint16, 4: np.uint32, 8: np.uint64}[dt.itemsize]
      out.append(np.array(bv.as_long(), dtype=u).view(dt)[()])
    elif dt.kind == 'b':
      out.append(z3.is_true(v))
    else:
      n = v.as_long()
      if dt.kind == 'i' and n >= 2 ** (dt.itemsize * 8 - 1):
        n -= 2 ** (dt.itemsize * 8)
      out.append(n)
  return np.array(out, dtype=arr_sym.dtype).reshape(arr_sym.shape)


def _as_terms(a):
  """Concrete array -> SymArray whose elements are z3 *constants*."""
  be = symnp.backend()
  a = np.asarray(a)
  return SymArray(a.shape, a.dtype, [be.const(a.dtype, x) for x in a.reshape(-1)])


def check_shim(seed=0):
  """Every shim op in CONC (NumPy folding) and in BITS-on-constants vs NumPy."""
  rng = np.random.default_rng(seed)
  errors, n = [], 0
  symnp.set_backend(B.Bits())
  f32 = _corpus(np.float32, rng)
  f64 = _corpus(np.float64, rng)
  i8 = _corpus(np.int8, rng)
  i16 = _corpus(np.int16, rng)
  i32 = _corpus(np.int32, rng)
  u8 = _corpus(np.uint8, rng)
  P = symnp.PROXY
  cases = []
  for a in (f32, f64):
    b = np.roll(a, 3)
    cases += [('add', lambda x, y: x + y, (a, b)),
              ('sub', lambda x, y: x - y, (a, b)),
              ('mul', lambda x, y: x * y, (a, b)),
              ('div', lambda x, y: x / y, (a, b)),
              ('rdiv', lambda x: 1.0 / x, (a,)),
              ('weakmul', lambda x: x * 0.95, (a,)),
              ('weakmax', lambda x: P.maximum(x, 1e-4), (a,)),
              ('maximum', P.maximum, (a, b)), ('minimum', P.minimum, (a, b)),
              ('abs', P.abs, (a,)), ('rint', P.rint, (a,)),
              ('clip', lambda x: P.clip(x, -127.0, 127.0), (a,)),
              ('square', P.square, (a,)), ('neg', lambda x: -x, (a,)),
              ('lt', lambda x, y: x < y, (a, b)),
              ('eq', lambda x, y: x == y, (a, b)),
              ('min', lambda x: P.min(x, axis=None, keepdims=True), (a[:6],)),
              ('max', lambda x: P.max(x.reshape(2, 3), axis=(1,), keepdims=True),
               (a[:6],)),
              ('nan_to_num', lambda x: P.nan_to_num(x, nan=1e-9, neginf=-1e9,
                                                    posinf=1e9), (a,)),
              ]
  fin = f32[np.isfinite(f32)]
  cases += [('f2f16', lambda x: x.astype(np.float16), (f32,)),
            ('f2f64', lambda x: x.astype(np.float64), (f32,)),
            ('f642f32', lambda x: x.astype(np.float32), (f64,)),
            ('f2i8', lambda x: P.clip(P.rint(x), -128.0, 127.0).astype(np.int8),
             (fin,)),
            ('f2i16', lambda x: P.clip(P.rint(x), -32768.0, 32767.0).astype(
                np.int16), (fin,)),
            ('f2i32', lambda x: P.clip(P.rint(x), -2147483647.0,
                                       2147483647.0).astype(np.int32),
             (f64[np.isfinite(f64)],)),
            ('i8sub', lambda x, y: x - y, (i8, np.roll(i8, 2))),
            ('i8-i32', lambda x, y: x - y, (i8, i32[:len(i8)])),
            ('i8*f32', lambda x, y: x * y, (i8, f32[:len(i8)])),
            ('i32*f32', lambda x, y: x * y, (i32, f32[:len(i32)])),
            ('f32+i8', lambda x, y: x + y, (f32[:len(i8)], i8)),
            ('f32+i32', lambda x, y: x + y, (f32[:len(i32)], i32)),
            ('i16->i64', lambda x: x.astype(np.int64), (i16,)),
            ('i32->i8', lambda x: x.astype(np.int8), (i32,)),
            ('and', lambda x: x & 0x0F, (u8,)),
            ('shl', lambda x: P.left_shift(x, 4).astype(np.uint8), (u8,)),
            ('or', P.bitwise_or, (u8, np.roll(u8, 1))),
            ('pad', lambda x: P.pad(x, (0, 1), constant_values=0), (u8,)),
            ('stride', lambda x: x[1::2], (u8,)),
            ('i8->u8 view', lambda x: P.frombuffer(x.tobytes(), dtype=np.uint8),
             (i8,)),
            ('f16 bytes', lambda x: P.frombuffer(
                x.astype(np.float16).tobytes(), dtype=np.uint8), (fin,)),
            ('i32 bytes', lambda x: P.frombuffer(x.tobytes(), dtype=np.uint8),
             (i32,)),
            ('expand', lambda x: P.expand_dims(x[:4], axis=[0, 2]), (f32,)),
            ('squeeze', lambda x: P.squeeze(x[:1].reshape(1, 1)), (f32,)),
            ('transpose', lambda x: P.transpose(x[:6].reshape(2, 3), (1, 0)),
             (f32,)),
            ('mean', lambda x: P.mean(P.square(P.subtract(x[:5], x[2:7]))),
             (fin,)),
            ('median3', lambda x: P.median(x[:3]), (fin,)),
            ('median4', lambda x: P.median(x[3:7]), (fin,)),
            ('isclose', lambda x, y: P.isclose(x, y), (f32, f32 * np.float32(
                1.000001))),
            ('isclose_tiny', lambda x, y: P.isclose(x, y),
             (np.array([6.1e-9, 1e-7, 0.0, 1.0, -3e-9], np.float32),
              np.array([9.1e-9, 2e-7, 1e-9, 1.00002, 3e-9], np.float32))),
            ('append', lambda x: P.append(x, 0), (u8,)),
            ('concatenate', lambda x, y: P.concatenate([x, y]), (i8, i8)),
            ]
  with warnings.catch_warnings():
    warnings.simplefilter('ignore')
    with np.errstate(all='ignore'):
      for name, f, args in cases:
        try:
          want = f(*args)
        except Exception as ex:  # pylint: disable=broad-except
          errors.append(f'{name}: numpy raised {ex}')
          continue
        for mode in ('CONC', 'BITS'):
          n += 1
          try:
            if mode == 'CONC':
              got = f(*[SymArray.from_numpy(a) for a in args])
              got = got.to_numpy() if isinstance(got, SymArray) else got
            else:
              got = f(*[_as_terms(a) for a in args])
              got = _bits_eval(got) if isinstance(got, SymArray) else got
          except Exception as ex:  # pylint: disable=broad-except
            errors.append(f'{name}/{mode}: shim raised '
                          f'{type(ex).__name__}: {ex}')
            continue
          if not _same(np.asarray(want), np.asarray(got)):
            w, g = np.asarray(want).reshape(-1), np.asarray(got).reshape(-1)
            bad = [i for i in range(min(len(w), len(g)))
                   if not _same(w[i], g[i])][:3]
            errors.append(f'{name}/{mode}: mismatch at {bad}: numpy '
                          f'{[w[i] for i in bad]} shim {[g[i] for i in bad]} '
                          f'(dtype {np.asarray(want).dtype} vs '
                          f'{np.asarray(got).dtype})')
  return n, errors


def check_fake_interpreter(models=None):
  from symx import fakeinterp
  from ai_edge_litert import interpreter as tfl
  errors, n = [], 0
  models = models or sorted(glob.glob(os.path.join(MODELS, '*.tflite')))
  for path in models:
    with open(path, 'rb') as f:
      mb = f.read()
    try:
      real = tfl.Interpreter(model_content=mb,
                             experimental_preserve_all_tensors=True)
    except Exception:  # pylint: disable=broad-except
      continue
    fake = fakeinterp.Interpreter(model_content=mb,
                                  experimental_preserve_all_tensors=True)
    nm = os.path.basename(path)
    nsub = len(fake._model.subgraphs)
    for si in range(nsub):
      n += 1
      try:
        rd = real.get_tensor_details(si)
      except Exception as ex:  # pylint: disable=broad-except
        errors.append(f'{nm} sg{si}: real get_tensor_details raised {ex}')
        continue
      fd = fake.get_tensor_details(si)
      if len(rd) < len(fd):
        errors.append(f'{nm} sg{si}: tensor count {len(rd)} vs {len(fd)}')
        continue
      for a, b in zip(rd, fd):
        for k in ('name', 'index', 'dtype'):
          if a[k] != b[k]:
            errors.append(f'{nm} sg{si} t{b["index"]}: {k} {a[k]} vs {b[k]}')
        if list(a['shape']) != list(b['shape']):
          errors.append(f'{nm} sg{si} t{b["index"]}: shape')
        qa, qb = a['quantization_parameters'], b['quantization_parameters']
        for k in ('scales', 'zero_points'):
          if qa[k].dtype != qb[k].dtype or not np.array_equal(qa[k], qb[k]):
            errors.append(f'{nm} sg{si} t{b["index"]}: {k} {qa[k]!r} vs '
                          f'{qb[k]!r}')
        if len(qa['scales']) and qa['quantized_dimension'] != qb[
            'quantized_dimension']:
          errors.append(f'{nm} sg{si} t{b["index"]}: quantized_dimension')
    sl_r = real.get_signature_list()
    sl_f = fake.get_signature_list()
    if {k: (sorted(v['inputs']), sorted(v['outputs'])) for k, v in
        sl_r.items()} != {k: (sorted(v['inputs']), sorted(v['outputs']))
                          for k, v in sl_f.items()}:
      errors.append(f'{nm}: signature list differs')
    for key in list(sl_r) + [None]:
      n += 1
      try:
        rr = real.get_signature_runner(key)
        rerr = None
      except Exception as ex:  # pylint: disable=broad-except
        rr, rerr = None, ex
      try:
        fr = fake.get_signature_runner(key)
        ferr = None
      except Exception as ex:  # pylint: disable=broad-except
        fr, ferr = None, ex
      if (rerr is None) != (ferr is None):
        errors.append(f'{nm} signature {key}: raises real={rerr} fake={ferr}')
        continue
      if rr is None:
        continue
      if rr._subgraph_index != fr._subgraph_index:
        errors.append(f'{nm} signature {key}: subgraph index')
      for which in ('get_input_details', 'get_output_details'):
        da, db = getattr(rr, which)(), getattr(fr, which)()
        if set(da) != set(db):
          errors.append(f'{nm} signature {key}: {which} keys')
          continue
        for k in da:
          if da[k]['name'] != db[k]['name'] or da[k]['index'] != db[k][
              'index'] or da[k]['dtype'] != db[k]['dtype']:
            errors.append(f'{nm} signature {key}: {which}[{k}]')
  return n, errors


if __name__ == '__main__':
  import sys
  os.environ.setdefault('TF_CPP_MIN_LOG_LEVEL', '3')
  n1, e1 = check_shim()
  print('shim', n1, len(e1))
  for x in e1[:30]:
    print('  ', x)
  n2, e2 = check_fake_interpreter()
  print('fake interpreter', n2, len(e2))
  for x in e2[:30]:
    print('  ', x)
  sys.exit(1 if e1 or e2 else 0)
