"""Engine and scalar symbolic values.

The engine explores the decision tree of a Python harness by re-execution:
every time the code under test asks a symbolic boolean for its truth value
(`if`, `and`, `in`, `list.remove`, dict lookup ...) the engine checks with z3
which outcomes are feasible under the current path condition, follows one and
queues the other.  Obligations are decided by asking z3 for
`path_condition AND NOT obligation`.
"""
from __future__ import annotations

import time
import z3


class Inconclusive(Exception):
  """The run cannot decide (solver unknown, unsupported op, cap reached)."""


class Unsupported(Inconclusive):
  """The code under test used an operation the symbolic shim does not model."""


class _AbortPath(BaseException):
  """Path is infeasible / cut by an assumption. BaseException on purpose."""


class _Diverged(BaseException):
  """Forced re-execution left the recorded decision sequence."""


class _Found(BaseException):

  def __init__(self, neg):
    self.neg = neg


def _site():
  """Call site of a decision: the frames outside symx (stable across back
  ends, used to align forced re-execution with the recorded decisions)."""
  import sys
  f = sys._getframe(1)
  out = []
  while f is not None and len(out) < 6:
    fn = f.f_code.co_filename
    if '/symx/' not in fn and not fn.startswith('/tmp/'):
      out.append((fn, f.f_lineno))
    f = f.f_back
  return tuple(out)


def _simp(e):
  if isinstance(e, bool):
    return z3.BoolVal(e)
  return z3.simplify(e)


class Violation:

  def __init__(self, name, model_values, info, path):
    self.name = name
    self.model_values = model_values
    self.info = info
    self.path = path

  def __repr__(self):
    return f'Violation({self.name}, {self.model_values}, {self.info})'


class Stats:

  def __init__(self):
    self.paths = 0
    self.infeasible_paths = 0
    self.decisions = 0
    self.forks = 0
    self.solver_calls = 0
    self.solver_time = 0.0
    self.obligations = 0
    self.discharged = 0
    self.unknown = 0
    self.reached = {}
    self.max_depth = 0
    self.samples = []

  def merge(self, other):
    for k in ('paths', 'infeasible_paths', 'decisions', 'forks',
              'solver_calls', 'obligations', 'discharged', 'unknown'):
      setattr(self, k, getattr(self, k) + getattr(other, k))
    self.solver_time += other.solver_time
    self.max_depth = max(self.max_depth, other.max_depth)
    for k, v in other.reached.items():
      self.reached[k] = self.reached.get(k, 0) + v
    self.samples = (self.samples + other.samples)[:8]

  def as_dict(self):
    d = dict(self.__dict__)
    d['solver_time'] = round(self.solver_time, 3)
    return d


class Engine:
  """DFS over branch decisions with re-execution."""

  current: 'Engine | None' = None

  def __init__(self, solver_timeout_ms=30000, max_paths=200000,
               max_decisions=600, wall_budget_s=None, oneshot_checks=False,
               logic=None, shard=None):
    # shard=(s, D): explore only the paths whose first D two-sided forks take
    # the outcomes given by the bits of s (paths with fewer forks belong to
    # the shard whose remaining bits are 0): an exact partition of the tree.
    self.shard = shard
    self._nforks = 0
    self.solver_timeout_ms = solver_timeout_ms
    self.max_paths = max_paths
    self.max_decisions = max_decisions
    self.wall_budget_s = wall_budget_s
    self.oneshot_checks = oneshot_checks
    self.logic = logic
    self.stats = Stats()
    self.violations: list[Violation] = []
    self.inconclusive: list[str] = []
    self.inputs: dict[str, object] = {}
    self._solver = None
    self._prefix = []
    self._trace = []
    self._pc = []
    self._fresh = 0
    self._model = None
    self._forced = None
    self.falsify_first = False
    self.stop_path_on_violation = False
    # second solver (cvc5 binary) on every k-th decided obligation
    import os as _os
    self.crosscheck_stride = int(_os.environ.get('VERIF_CROSSCHECK', '0'))
    self._cc_n = 0
    self.crosscheck = {'agree': 0, 'timeout_or_error': 0, 'disagree': 0}
    self._forced_sites = []
    self._sites = []
    self._guess = []
    self._unmatched = 0
    self._check_index = 0

  # ---- variable creation -------------------------------------------------
  def fresh_name(self, base):
    self._fresh += 1
    return f'{base}!{self._fresh}'

  def register_input(self, name, expr):
    self.inputs[name] = expr

  # ---- solver plumbing ---------------------------------------------------
  def _check(self, *extra):
    s = self._solver
    t0 = time.time()
    if extra:
      s.push()
      for e in extra:
        s.add(e)
    r = s.check()
    m = None
    if r == z3.sat:
      m = s.model()
    if extra:
      s.pop()
    self.stats.solver_calls += 1
    self.stats.solver_time += time.time() - t0
    return str(r), m

  def _check_oneshot(self, extra):
    s = z3.Solver() if self.logic is None else z3.SolverFor(self.logic)
    s.set('timeout', self.solver_timeout_ms)
    for e in self._pc:
      s.add(e)
    s.add(extra)
    t0 = time.time()
    r = s.check()
    m = s.model() if r == z3.sat else None
    self.stats.solver_calls += 1
    self.stats.solver_time += time.time() - t0
    return str(r), m

  def _add(self, e):
    self._pc.append(e)
    if self._forced is not None:
      return
    self._solver.add(e)
    if self._model is not None:
      try:
        if not z3.is_true(self._model.eval(e, model_completion=True)):
          self._model = None
      except z3.Z3Exception:
        self._model = None

  # ---- API used by values and harnesses ----------------------------------
  def assume(self, cond, check=True):
    """check=False: add without a feasibility query (the harness's vacuity
    witness guards against an unsatisfiable assumption set)."""
    cond = cond.z if isinstance(cond, SymBool) else cond
    c = _simp(cond)
    if z3.is_true(c):
      return
    if z3.is_false(c):
      raise _AbortPath()
    if self._forced is not None:
      self._pc.append(c)
      return
    if not check:
      self._add(c)
      return
    r, _ = self._check(c)
    if r == 'unsat':
      raise _AbortPath()
    if r == 'unknown':
      raise Inconclusive('solver unknown on assume')
    self._add(c)

  def decide(self, cond) -> bool:
    c = _simp(cond)
    if z3.is_true(c) or z3.is_false(c):
      val = z3.is_true(c)
      if self._forced is not None:
        # was this decision recorded (non-constant) in the exploring run?
        i = len(self._trace)
        if (i < len(self._prefix) and i < len(self._forced_sites)
            and self._forced_sites[i] == _site()
            and isinstance(self._prefix[i], bool)):
          self._trace.append(self._prefix[i])
          if self._prefix[i] != val:
            self._pc.append(z3.BoolVal(False))  # infeasible bit-precisely
            return self._prefix[i]
      return val
    i = len(self._trace)
    if i >= self.max_decisions:
      raise Inconclusive(f'decision depth cap {self.max_decisions} reached '
                         '(unwinding assertion)')
    self.stats.decisions += 1
    if self._forced is not None:
      matched = (i < len(self._prefix) and isinstance(self._prefix[i], bool)
                 and (i >= len(self._forced_sites)
                      or self._forced_sites[i] == _site()))
      if matched:
        v = self._prefix[i]
        self._trace.append(v)
      else:
        # a decision the exploring back end did not record (its condition was
        # constant there): guessed, with backtracking in concretize()
        k = self._unmatched
        self._unmatched += 1
        v = self._guess[k] if k < len(self._guess) else True
        if k >= len(self._guess):
          self._guess.append(True)
      self._pc.append(c if v else z3.Not(c))
      return v
    self._sites.append(_site())
    if i < len(self._prefix):
      v = self._prefix[i]
      if not isinstance(v, bool):
        raise Inconclusive('non-deterministic replay (kind mismatch)')
      self._trace.append(v)
      self._add(c if v else z3.Not(c))
      return v
    # one solver call per decision: a cached model of the path condition
    # tells which side is certainly feasible; only the other side is queried.
    mt = mf = None
    hint = None
    if self._model is not None:
      try:
        ev = self._model.eval(c, model_completion=True)
        hint = True if z3.is_true(ev) else False if z3.is_false(ev) else None
      except z3.Z3Exception:
        hint = None
    if hint is True:
      rt, mt = 'sat', self._model
      rf, mf = self._check(z3.Not(c))
    elif hint is False:
      rf, mf = 'sat', self._model
      rt, mt = self._check(c)
    else:
      rt, mt = self._check(c)
      if rt == 'unsat':
        rf = 'sat'  # the path condition is satisfiable, so the other side is
      else:
        rf, mf = self._check(z3.Not(c))
    if rt == 'unknown' or rf == 'unknown':
      raise Inconclusive('solver unknown on branch feasibility')
    if rt == 'sat' and rf == 'sat':
      self.stats.forks += 1
      if self.shard is not None and self._nforks < self.shard[1]:
        v = bool((self.shard[0] >> self._nforks) & 1)
        self._nforks += 1
      else:
        self._nforks += 1
        self._work.append((self._trace + [False], self._nforks))
        v = True
    elif rt == 'sat':
      v = True
    elif rf == 'sat':
      v = False
    else:
      raise _AbortPath()
    self._model = mt if v else mf
    self._trace.append(v)
    self._add(c if v else z3.Not(c))
    return v

  def choose(self, expr) -> int:
    """Fork over the feasible integer values of expr."""
    e = _simp(expr)
    if z3.is_int_value(e):
      return e.as_long()
    if z3.is_bv_value(e):
      return e.as_long()
    i = len(self._trace)
    if i >= self.max_decisions:
      raise Inconclusive('decision depth cap reached (unwinding assertion)')
    self.stats.decisions += 1
    if self._forced is not None:
      if i >= len(self._prefix) or isinstance(self._prefix[i], bool):
        raise _Diverged()
      self._trace.append(self._prefix[i])
      self._pc.append(e == self._prefix[i][0])
      return self._prefix[i][0]
    self._sites.append(_site())
    if i < len(self._prefix):
      v = self._prefix[i]
      if isinstance(v, bool):
        raise Inconclusive('non-deterministic replay (kind mismatch)')
      val, excluded = v
      if i == len(self._prefix) - 1:
        # freshly forced alternative: its own successors are not queued yet
        self._queue_choose_alt(e, val, excluded)
      self._trace.append(v)
      self._add(e == val)
      return val
    # fresh: pick a feasible value, queue "another value" as alternative.
    r, m = self._check()
    if r != 'sat':
      if r == 'unknown':
        raise Inconclusive('solver unknown on choose')
      raise _AbortPath()
    val = m.eval(e, model_completion=True).as_long()
    excluded = ()
    self._queue_choose_alt(e, val, excluded)
    self._trace.append((val, excluded))
    self._add(e == val)
    return val

  def _queue_choose_alt(self, e, val, excluded):
    excl = tuple(excluded) + (val,)
    if len(excl) > 64:
      raise Inconclusive('choose(): more than 64 feasible values')
    r, m = self._check(*[e != x for x in excl])
    if r == 'unknown':
      raise Inconclusive('solver unknown on choose')
    if r == 'sat':
      self.stats.forks += 1
      nxt = m.eval(e, model_completion=True).as_long()
      self._work.append((self._trace + [(nxt, excl)], self._nforks))

  def reach(self, name):
    self.stats.reached[name] = self.stats.reached.get(name, 0) + 1

  def witness(self, name, formula=True, optional=False):
    if self._forced is not None:
      return True
    return self._witness(name, formula, optional)

  def _witness(self, name, formula=True, optional=False):
    """Vacuity guard: pc AND formula must be satisfiable (twin assert(false)).

    optional: a stronger "interesting region is reachable" witness; if the
    solver cannot decide it in 10 s it is simply not recorded.
    """
    f = formula.z if isinstance(formula, SymBool) else formula
    f = _simp(f)
    if z3.is_false(f):
      return False
    if optional:
      self._solver.set('timeout', 10000)
    r, _ = self._check(f) if not z3.is_true(f) else self._check()
    if optional:
      self._solver.set('timeout', self.solver_timeout_ms)
    if r == 'sat':
      self.reach(name)
      return True
    if r == 'unknown' and not optional:
      self.inconclusive.append(f'unknown on vacuity witness {name}')
    return False

  def check(self, name, formula, info=None, only_facts=None, tactic=None):
    """Obligation: formula must hold on every input reaching this point.

    only_facts: decide the obligation from these facts alone (each must be a
    member/consequence of the path condition, e.g. a lemma proved earlier on
    this path) instead of the whole path condition -- sound, and keeps the
    query in a cheap theory fragment.
    """
    self._check_index += 1
    f = formula.z if isinstance(formula, SymBool) else formula
    f = _simp(f)
    if self._forced is not None:
      if self._check_index == self._forced[1]:
        raise _Found(z3.Not(f))
      return True
    self.stats.obligations += 1
    if z3.is_true(f):
      self.stats.discharged += 1
      return True
    neg = z3.Not(f)
    if self.falsify_first:
      vals = self.random_falsify(neg, seed=self._check_index)
      if vals is not None:
        v = Violation(name, vals, info() if callable(info) else info,
                      list(self._trace))
        v.check_index = self._check_index
        v.sites = list(self._sites)
        self.violations.append(v)
        if self.stop_path_on_violation:
          raise _AbortPath()
        return False
    if only_facts is not None or tactic is not None:
      tactics = tactic if isinstance(tactic, (list, tuple)) else [tactic]
      r, m = 'unknown', None
      for i, tac in enumerate(tactics):
        s = z3.Solver() if tac is None else z3.Tactic(tac).solver()
        s.set('timeout', max(1000, self.solver_timeout_ms // len(tactics)))
        for x in (only_facts if only_facts is not None else self._pc):
          s.add(x)
        s.add(neg)
        t0 = time.time()
        r = str(s.check())
        m = s.model() if r == 'sat' else None
        self.stats.solver_calls += 1
        self.stats.solver_time += time.time() - t0
        if r != 'unknown':
          break
    elif self.oneshot_checks:
      r, m = self._check_oneshot(neg)
    else:
      r, m = self._check(neg)
    if self.crosscheck_stride and r in ('sat', 'unsat'):
      self._cc_n += 1
      if self._cc_n % self.crosscheck_stride == 0:
        facts = only_facts if only_facts is not None else self._pc
        self._crosscheck(name, list(facts) + [neg], r)
    if r == 'unsat':
      self.stats.discharged += 1
      return True
    if r == 'unknown':
      self.stats.unknown += 1
      self.inconclusive.append(f'unknown: {name}')
      return None
    vals = self.model_values(m)
    v = Violation(name, vals, info() if callable(info) else info,
                  list(self._trace))
    v.check_index = self._check_index
    v.sites = list(self._sites)
    self.violations.append(v)
    if self.stop_path_on_violation:
      raise _AbortPath()
    return False

  def random_falsify(self, neg, tries=64, seed=0):
    """Cheap witness search before the solver: random float32/int values for
    the registered inputs; a hit must satisfy the whole path condition and
    `neg`.  Only ever used to FIND a counterexample faster - "holds" is always
    the solver's unsat."""
    import random
    import struct
    rng = random.Random(seed)
    names = list(self.inputs)
    if not names:
      return None
    for t in range(tries):
      sub = []
      base = {}
      # correlated regimes: mixed signs, all negative, all positive, equal
      regime = ('mixed', 'neg', 'pos', 'mixed', 'same', 'neg', 'tiny')[t % 7]
      same = rng.uniform(-2, 2)
      for n in names:
        v = self.inputs[n]
        srt = v.sort()
        if z3.is_fp_sort(srt) and srt.ebits() == 8:
          mag = rng.choice([1e-3, 0.1, 1.0, 1.0, 10.0, 300.0])
          if regime == 'neg':
            x = rng.uniform(-1, -0.01) * mag
          elif regime == 'pos':
            x = rng.uniform(0.01, 1) * mag
          elif regime == 'same':
            x = same
          elif regime == 'tiny':
            x = rng.uniform(-1, 1) * 1e-6
          else:
            x = rng.choice([0.0, rng.uniform(-1, 1), rng.uniform(-1, 1),
                            rng.uniform(0, 1), rng.uniform(-1, 0)]) * mag
          base[n] = x
        elif z3.is_bv_sort(srt):
          sub.append((v, z3.BitVecVal(rng.getrandbits(srt.size()), srt.size())))
        elif srt == z3.IntSort():
          sub.append((v, z3.IntVal(rng.randint(-4, 300))))
        elif srt == z3.BoolSort():
          sub.append((v, z3.BoolVal(rng.random() < 0.5)))
      # keep min_* <= max_* pairs ordered
      for n in list(base):
        if n.startswith('min_') and ('max_' + n[4:]) in base:
          a, b = base[n], base['max_' + n[4:]]
          base[n], base['max_' + n[4:]] = min(a, b), max(a, b)
      for n, x in base.items():
        bits = struct.unpack('<I', struct.pack('<f', x))[0]
        sub.append((self.inputs[n],
                    z3.fpBVToFP(z3.BitVecVal(bits, 32), z3.Float32())))
      try:
        ok = z3.simplify(z3.substitute(z3.And(*(self._pc + [neg])), *sub))
      except z3.Z3Exception:
        return None
      if z3.is_true(ok):
        return {k: z3.simplify(z3.substitute(self.inputs[k], *sub))
                for k in names}
    return None

  def _crosscheck(self, name, assertions, z3_result):
    """Decide the same query with the cvc5 binary; a definite disagreement
    makes the run inconclusive."""
    import subprocess
    import tempfile
    import os as _os
    s = z3.Solver()
    for a in assertions:
      s.add(a)
    txt = s.to_smt2()
    if 'declare-datatypes' in txt:
      self.crosscheck['timeout_or_error'] += 1
      return
    f = tempfile.NamedTemporaryFile('w', suffix='.smt2', delete=False)
    f.write('(set-logic ALL)\n' + txt.replace('(set-info :status', ';'))
    f.close()
    try:
      out = subprocess.run(
          ['cvc5', '--tlimit=20000', '--strings-exp', f.name],
          capture_output=True, text=True, timeout=40).stdout.strip().split('\n')[0]
    except Exception:  # pylint: disable=broad-except
      out = 'error'
    finally:
      _os.unlink(f.name)
    if out in ('sat', 'unsat'):
      if out == z3_result:
        self.crosscheck['agree'] += 1
      else:
        self.crosscheck['disagree'] += 1
        self.inconclusive.append(
            f'solver disagreement on {name}: z3 {z3_result}, cvc5 {out}')
    else:
      self.crosscheck['timeout_or_error'] += 1
    self.stats.reached['cvc5_' + ('agree' if out == z3_result else
                                  'disagree' if out in ('sat', 'unsat')
                                  else 'undecided')] = self.stats.reached.get(
        'cvc5_' + ('agree' if out == z3_result else 'disagree' if out in (
            'sat', 'unsat') else 'undecided'), 0) + 1

  def model_values(self, m):
    vals = {}
    for k, e in self.inputs.items():
      vals[k] = m.eval(e, model_completion=True)
    return vals

  def sample_model(self):
    """A model of the current path condition (for replay validation)."""
    r, m = self._check()
    if r != 'sat':
      return None
    return self.model_values(m)

  # ---- main loop ---------------------------------------------------------
  def explore(self, harness, stop_on_violation=False):
    """Runs harness(engine) once per feasible path."""
    prev = Engine.current
    Engine.current = self
    self._work = [([], 0)]
    t0 = time.time()
    try:
      while self._work:
        if self.stats.paths >= self.max_paths:
          self.inconclusive.append(f'path cap {self.max_paths} reached')
          break
        if self.wall_budget_s and time.time() - t0 > self.wall_budget_s:
          self.inconclusive.append(
              f'wall budget {self.wall_budget_s}s reached with '
              f'{len(self._work)} prefixes left')
          break
        self._prefix, self._nforks = self._work.pop()
        saved = None
        if self.shard is not None:
          import copy
          saved = (copy.deepcopy(self.stats), len(self.violations),
                   len(self.inconclusive))
        self._trace = []
        self._sites = []
        self._pc = []
        self._model = None
        self._check_index = 0
        self._fresh = 0
        self.inputs = {}
        self._solver = (z3.Solver() if self.logic is None
                        else z3.SolverFor(self.logic))
        self._solver.set('timeout', self.solver_timeout_ms)
        try:
          harness(self)
          if saved is not None and self._nforks < self.shard[1] and (
              self.shard[0] >> self._nforks):
            # path has fewer than D forks and belongs to another shard
            self.stats = saved[0]
            del self.violations[saved[1]:]
            del self.inconclusive[saved[2]:]
            continue
          self.stats.paths += 1
          self.stats.max_depth = max(self.stats.max_depth, len(self._trace))
          if len(self.stats.samples) < 4:
            self.stats.samples.append(
                [v if isinstance(v, bool) else v[0] for v in self._trace][:40])
        except _AbortPath:
          self.stats.infeasible_paths += 1
        except Inconclusive as e:
          self.inconclusive.append(f'{type(e).__name__}: {e}')
          self.stats.paths += 1
        if stop_on_violation and self.violations:
          break
    finally:
      Engine.current = prev
      self._solver = None
    return self

  def concretize(self, harness, violation, timeout_ms=120000):
    """Re-executes `harness` (typically the same harness under a bit-precise
    back end) along the recorded decisions of `violation` without feasibility
    checks and asks once for a model of path condition AND NOT obligation.

    Returns ('sat', values) | ('unsat', None) | ('unknown', None) |
    ('diverged', None).
    """
    prev = Engine.current
    Engine.current = self
    self._forced = (violation.name, violation.check_index)
    self._forced_sites = list(getattr(violation, 'sites', []))
    self._prefix = list(violation.path)
    self._solver = None
    pending = [[]]
    tries = 0
    last = 'diverged'
    try:
      while pending and tries < 12:
        tries += 1
        self._guess = list(pending.pop())
        n_fixed = len(self._guess)
        self._unmatched = 0
        self._sites = []
        self._trace, self._pc, self._fresh, self._check_index = [], [], 0, 0
        self.inputs = {}
        self._model = None
        try:
          harness(self)
          last = 'diverged'
        except _Found as f:
          s = z3.Solver()
          s.set('timeout', timeout_ms)
          for x in self._pc:
            s.add(x)
          s.add(f.neg)
          t0 = time.time()
          r = str(s.check())
          self.stats.solver_calls += 1
          self.stats.solver_time += time.time() - t0
          if r == 'sat':
            return 'sat', self.model_values(s.model())
          last = r if last != 'unknown' else last
        except (_Diverged, _AbortPath):
          last = 'diverged' if last == 'diverged' else last
        # alternatives for the guessed decisions of this run
        for j in range(len(self._guess) - 1, n_fixed - 1, -1):
          pending.append(self._guess[:j] + [False])
      return last, None
    finally:
      self._forced = None
      Engine.current = prev

  @property
  def ok(self):
    return not self.violations and not self.inconclusive


def engine() -> Engine:
  if Engine.current is None:
    raise Inconclusive('symbolic value forced outside an engine run')
  return Engine.current


# ---------------------------------------------------------------------------
# scalar values
# ---------------------------------------------------------------------------
class SymBool:
  __slots__ = ('z',)

  def __init__(self, z):
    self.z = z

  def __bool__(self):
    return engine().decide(self.z)

  def __and__(self, o):
    return SymBool(z3.And(self.z, _zb(o)))

  __rand__ = __and__

  def __or__(self, o):
    return SymBool(z3.Or(self.z, _zb(o)))

  __ror__ = __or__

  def __invert__(self):
    return SymBool(z3.Not(self.z))

  def __eq__(self, o):
    return SymBool(self.z == _zb(o))

  def __ne__(self, o):
    return SymBool(self.z != _zb(o))

  def __hash__(self):
    return hash(bool(self))

  def __deepcopy__(self, memo):
    return self

  def __repr__(self):
    return f'SymBool({self.z})'


def _zb(o):
  if isinstance(o, SymBool):
    return o.z
  if isinstance(o, bool):
    return z3.BoolVal(o)
  if z3.is_expr(o):
    return o
  raise Unsupported(f'bool op with {type(o)}')


def mkbool(z):
  """Returns a Python bool if z is decided, else a SymBool."""
  s = _simp(z)
  if z3.is_true(s):
    return True
  if z3.is_false(s):
    return False
  return SymBool(s)


def _zi(o):
  if isinstance(o, SymInt):
    return o.z
  if isinstance(o, bool):
    return z3.IntVal(int(o))
  if isinstance(o, int):
    return z3.IntVal(o)
  return None


class SymInt:
  """Mathematical integer (Python int semantics)."""
  __slots__ = ('z',)

  def __init__(self, z):
    self.z = z

  @staticmethod
  def fresh(name, lo=None, hi=None):
    e = engine()
    v = z3.Int(name)
    e.register_input(name, v)
    if lo is not None:
      e.assume(v >= lo)
    if hi is not None:
      e.assume(v <= hi)
    return SymInt(v)

  def _bin(self, o, f):
    z = _zi(o)
    if z is None:
      return NotImplemented
    return mkint(f(self.z, z))

  def _rbin(self, o, f):
    z = _zi(o)
    if z is None:
      return NotImplemented
    return mkint(f(z, self.z))

  def __add__(self, o):
    return self._bin(o, lambda a, b: a + b)

  def __radd__(self, o):
    return self._rbin(o, lambda a, b: a + b)

  def __sub__(self, o):
    return self._bin(o, lambda a, b: a - b)

  def __rsub__(self, o):
    return self._rbin(o, lambda a, b: a - b)

  def __mul__(self, o):
    return self._bin(o, lambda a, b: a * b)

  def __rmul__(self, o):
    return self._rbin(o, lambda a, b: a * b)

  def __neg__(self):
    return mkint(-self.z)

  def __pos__(self):
    return self

  def __floordiv__(self, o):
    z = _zi(o)
    if z is None:
      return NotImplemented
    if not (z3.is_int_value(z) and z.as_long() > 0):
      raise Unsupported('SymInt // non-positive-constant')
    return mkint(self.z / z)  # z3 Int div floors for positive divisors

  def __mod__(self, o):
    z = _zi(o)
    if z is None:
      return NotImplemented
    if not (z3.is_int_value(z) and z.as_long() > 0):
      raise Unsupported('SymInt % non-positive-constant')
    return mkint(_reduce_mod(self.z, z.as_long()) % z)

  def _cmp(self, o, f):
    z = _zi(o)
    if z is None:
      return NotImplemented
    return mkbool(f(self.z, z))

  def __lt__(self, o):
    return self._cmp(o, lambda a, b: a < b)

  def __le__(self, o):
    return self._cmp(o, lambda a, b: a <= b)

  def __gt__(self, o):
    return self._cmp(o, lambda a, b: a > b)

  def __ge__(self, o):
    return self._cmp(o, lambda a, b: a >= b)

  def __eq__(self, o):
    z = _zi(o)
    if z is None:
      return False
    return mkbool(self.z == z)

  def __ne__(self, o):
    z = _zi(o)
    if z is None:
      return True
    return mkbool(self.z != z)

  def __bool__(self):
    return engine().decide(self.z != 0)

  def __index__(self):
    return engine().choose(self.z)

  __int__ = __index__

  def __hash__(self):
    return hash(int(self))

  def __deepcopy__(self, memo):
    return self

  def __repr__(self):
    return f'SymInt({self.z})'


def _linear(z, acc, k=1):
  """z == const + sum coeff*atom; accumulates into acc {atom|None: coeff}."""
  if z3.is_int_value(z):
    acc[None] = acc.get(None, 0) + k * z.as_long()
  elif z3.is_add(z):
    for c in z.children():
      _linear(c, acc, k)
  elif z3.is_sub(z) and z.num_args() == 2:
    _linear(z.arg(0), acc, k)
    _linear(z.arg(1), acc, -k)
  elif z3.is_mul(z) and z.num_args() == 2 and z3.is_int_value(z.arg(0)):
    _linear(z.arg(1), acc, k * z.arg(0).as_long())
  elif z3.is_mul(z) and z.num_args() == 2 and z3.is_int_value(z.arg(1)):
    _linear(z.arg(0), acc, k * z.arg(1).as_long())
  else:
    key = z
    for a in acc:
      if a is not None and a.eq(z):
        key = a
        break
    acc[key] = acc.get(key, 0) + k


def _reduce_mod(z, m):
  """An expression congruent to z modulo m with coefficients reduced mod m
  (multiples of m dropped): keeps mod-queries over small bounded residues."""
  acc = {}
  _linear(z3.simplify(z), acc)
  out = z3.IntVal(acc.pop(None, 0) % m)
  for a, c in acc.items():
    c %= m
    if c:
      out = out + (a if c == 1 else c * a)
  return out


def mkint(z):
  s = _simp(z)
  if z3.is_int_value(s):
    return s.as_long()
  return SymInt(s)


class SymTok:
  """Opaque member of a finite domain of concrete Python values.

  hash() is constant so that the real dict/OrderedDict code works: a lookup
  compares the key against existing keys with ==, which yields a SymBool and
  forks on "equal to which existing key".
  """
  __slots__ = ('z', 'domain', 'name')

  def __init__(self, z, domain, name=None):
    self.z = z
    self.domain = domain
    self.name = name

  @staticmethod
  def fresh(name, domain):
    e = engine()
    v = z3.Int(name)
    e.register_input(name, v)
    e.assume(z3.And(v >= 0, v < len(domain)))
    return SymTok(v, domain, name)

  def _idx(self, o):
    for i, d in enumerate(self.domain):
      if d is o or (type(d) is type(o) and d == o):
        return i
    # str-enums compare equal to plain strings
    for i, d in enumerate(self.domain):
      try:
        if d == o:
          return i
      except Exception:  # pylint: disable=broad-except
        pass
    return None

  def __eq__(self, o):
    if isinstance(o, SymTok):
      if o.domain is self.domain or o.domain == self.domain:
        return mkbool(self.z == o.z)
      # different domains: equal iff they denote equal concrete values
      cases = []
      for i, d in enumerate(self.domain):
        j = o._idx(d)
        if j is not None:
          cases.append(z3.And(self.z == i, o.z == j))
      return mkbool(z3.Or(*cases)) if cases else False
    i = self._idx(o)
    if i is None:
      return False
    return mkbool(self.z == i)

  def __ne__(self, o):
    r = self.__eq__(o)
    if isinstance(r, bool):
      return not r
    return ~r

  def __hash__(self):
    return 7

  def concrete(self):
    """Fork to the concrete domain member."""
    return self.domain[engine().choose(self.z)]

  def concrete_index(self, values):
    return values[engine().choose(self.z)]

  def __deepcopy__(self, memo):
    return self

  def __repr__(self):
    return f'SymTok({self.z})'

  def __str__(self):
    # code that turns a token into text (json.dumps(default=str), f-strings,
    # str()) sees the text of its concrete value: fork over the values
    if Engine.current is None:
      return repr(self)
    return str(self.concrete())


def ite_bool(c, a, b):
  return mkbool(z3.If(_zb(c), _zb(a), _zb(b)))


def z3val_to_py(v):
  """JSON-able Python value of a z3 model value."""
  import fractions
  if z3.is_bool(v):
    return bool(z3.is_true(v))
  if z3.is_int_value(v):
    return v.as_long()
  if z3.is_bv_value(v):
    return v.as_long()
  if z3.is_rational_value(v):
    return str(fractions.Fraction(v.numerator_as_long(),
                                  v.denominator_as_long()))
  if z3.is_fp(v):
    w = v.sort().ebits() + v.sort().sbits()
    if z3.is_fp_value(v) and v.isNaN():
      return {'fpbits': {16: 0x7e00, 32: 0x7fc00000,
                         64: 0x7ff8000000000000}[w], 'width': w}
    bv = z3.simplify(z3.fpToIEEEBV(v))
    if z3.is_bv_value(bv):
      return {'fpbits': bv.as_long(), 'width': bv.size()}
  if z3.is_algebraic_value(v):
    return str(v.approx(20))
  if z3.is_string_value(v):
    return v.as_string()
  return str(v)


def fpbits_to_float(d):
  import struct
  w = d['width']
  b = d['fpbits']
  if w == 32:
    return struct.unpack('<f', struct.pack('<I', b))[0]
  if w == 64:
    return struct.unpack('<d', struct.pack('<Q', b))[0]
  if w == 16:
    return struct.unpack('<e', struct.pack('<H', b))[0]
  raise ValueError(w)


class SymStr:
  """Symbolic Python str: concatenation and (in)equality only."""
  __slots__ = ('z',)

  def __init__(self, z):
    self.z = z

  @staticmethod
  def fresh(name, max_len=None, alphabet=None):
    e = engine()
    v = z3.String(name)
    e.register_input(name, v)
    if max_len is not None:
      e.assume(z3.Length(v) <= max_len)
    if alphabet is not None:
      rx = z3.Star(z3.Union(*[z3.Re(c) for c in alphabet])) if len(
          alphabet) > 1 else z3.Star(z3.Re(alphabet[0]))
      e.assume(z3.InRe(v, rx))
    return SymStr(v)

  @staticmethod
  def _z(o):
    if isinstance(o, SymStr):
      return o.z
    if isinstance(o, str):
      return z3.StringVal(o)
    return None

  def __add__(self, o):
    z = SymStr._z(o)
    if z is None:
      return NotImplemented
    return SymStr(z3.Concat(self.z, z))

  def __radd__(self, o):
    z = SymStr._z(o)
    if z is None:
      return NotImplemented
    return SymStr(z3.Concat(z, self.z))

  def __eq__(self, o):
    z = SymStr._z(o)
    if z is None:
      return False
    return mkbool(self.z == z)

  def __ne__(self, o):
    z = SymStr._z(o)
    if z is None:
      return True
    return mkbool(self.z != z)

  def __hash__(self):
    return 11

  def __deepcopy__(self, memo):
    return self

  def __repr__(self):
    return f'SymStr({self.z})'
