#!/bin/bash
# runs every registered check (quick unless $1 given) and prints a summary
cd /verif
TIER=${1:-quick}
for p in $(python3 -c "import json; print(' '.join(c['property_id'] for c in json.load(open('MANIFEST.json'))['checks']))"); do
  s=$(date +%s)
  ./check $p --tier $TIER > out/all_$p.log 2>&1
  rc=$?
  echo "$p exit=$rc $(( $(date +%s) - s ))s $(grep -E "^$p \[" out/all_$p.log | cut -c1-200)"
done
