"""Runs the pinned baseline (guard off) and compares with BASELINE.json."""
import json, subprocess, sys, xml.etree.ElementTree as ET, os, tempfile
b = json.load(open('/root/.vp/BASELINE.json'))
out = tempfile.mktemp(suffix='.xml')
env = dict(os.environ)
env.pop('AI_EDGE_QUANTIZER_VERIF', None)
subprocess.run(b['cmd'].replace('<file>', out), shell=True, env=env,
               stdout=subprocess.DEVNULL, stderr=subprocess.DEVNULL)
passed = set()
for tc in ET.parse(out).getroot().iter('testcase'):
  if not any(c.tag in ('failure', 'error', 'skipped') for c in tc):
    passed.add(f"{tc.get('classname')}::{tc.get('name')}")
want = set(b['stable_pass'])
missing = sorted(want - passed)
print(f'baseline stable_pass={len(want)} passing_now={len(passed)} missing={len(missing)}')
for m in missing[:20]:
  print('  MISSING', m)
os.remove(out)
sys.exit(1 if missing else 0)
